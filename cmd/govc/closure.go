package main

import (
	"fmt"
	"os"
	"sort"

	"verif/internal/props"
	"verif/internal/vc"
)

// closureCmd: developer tool — print the apply-path closure and its map-range sites.
func closureCmd() {
	e, err := vc.Load("/repo", "/verif", ".")
	if err != nil {
		fmt.Fprintln(os.Stderr, err)
		os.Exit(2)
	}
	fns, sites := props.ApplyClosure(e)
	sort.Strings(fns)
	fmt.Println(len(fns), "functions")
	for _, s := range sites {
		fmt.Println("range:", s)
	}
}
