package main

import (
	"context"
	"flag"
	"fmt"
	"os"
	"sort"
	"strings"
	"sync"
	"time"

	"verif/internal/props"
	"verif/internal/vc"
)

func main() {
	if len(os.Args) < 2 {
		fmt.Fprintln(os.Stderr, "usage: govc unit <func> [flags] | check <Cxx> [--tier quick|thorough]")
		os.Exit(2)
	}
	switch os.Args[1] {
	case "unit":
		unitCmd(os.Args[2:])
	case "closure":
		closureCmd()
	case "check":
		fs := flag.NewFlagSet("check", flag.ExitOnError)
		tier := fs.String("tier", "", "quick|thorough")
		if len(os.Args) < 3 {
			fmt.Fprintln(os.Stderr, "usage: govc check <Cxx> [--tier t]")
			os.Exit(2)
		}
		fs.Parse(os.Args[3:])
		t := *tier
		if t == "" {
			t = os.Getenv("VERIF_TIER")
		}
		if t == "" {
			t = "quick"
		}
		seed := 0
		fmt.Sscanf(os.Getenv("VERIF_SEED"), "%d", &seed)
		os.Exit(props.Check(os.Args[2], t, seed))
	default:
		fmt.Fprintln(os.Stderr, "unknown command")
		os.Exit(2)
	}
}

// unitCmd: developer tool — verify one function and print every obligation.
func unitCmd(args []string) {
	fs := flag.NewFlagSet("unit", flag.ExitOnError)
	pkgs := fs.String("pkgs", "./...", "package patterns (comma separated)")
	nopanic := fs.Bool("nopanic", true, "")
	post := fs.Bool("post", true, "")
	frame := fs.Bool("frame", true, "")
	cover := fs.Bool("cover", false, "")
	assertsOnly := fs.Bool("assertsonly", false, "")
	assumePre := fs.Bool("assumepre", false, "callee preconditions are assumed, not proved")
	groups := fs.String("groups", "", "clause groups to keep (comma separated labels)")
	assumeG := fs.String("assume", "", "clause groups assumed here, proved elsewhere (comma separated labels)")
	locks := fs.Bool("locks", false, "track lock state and check guard directives (C20)")
	utier := fs.String("tier", "quick", "quick|thorough")
	timeout := fs.Int("timeout", 10000, "ms per query")
	dump := fs.Bool("dump", false, "print the script")
	irc := fs.Bool("irc", false, "wire the ircserver command table (handler template contracts)")
	quiet := fs.Bool("q", false, "print failing obligations only")
	fs.Parse(args)
	start := time.Now()
	vc.LockModeDefault = *locks
	e, err := vc.Load("/repo", "/verif", strings.Split(*pkgs, ",")...)

	if err != nil {
		fmt.Fprintln(os.Stderr, "ENGINE-ERROR", err)
		os.Exit(2)
	}
	fmt.Fprintf(os.Stderr, "loaded in %.1fs\n", time.Since(start).Seconds())
	if *irc {
		if err := props.PrepareIRCForUnit(e); err != nil {
			fmt.Fprintln(os.Stderr, "ENGINE-ERROR", err)
			os.Exit(2)
		}
	}
	bad := 0
	for _, name := range fs.Args() {
		var gs []string
		if *groups != "" {
			gs = strings.Split(*groups, ",")
		}
		var ags []string
		if *assumeG != "" {
			ags = strings.Split(*assumeG, ",")
		}
		u, err := e.VerifyFunc(name, vc.UnitOpts{NoPanic: *nopanic, Post: *post, Frame: *frame, Cover: *cover, AssertsOnly: *assertsOnly, AssumePre: *assumePre, Groups: gs, AssumeGroups: ags})
		if err != nil {
			fmt.Println("ENGINE-ERROR", err)
			bad++
			continue
		}
		if *dump {
			fmt.Println(u.Script(false))
		}
		stats := map[string]*vc.SolverStat{}
		var mu sync.Mutex
		t0 := time.Now()
		u.Discharge(context.Background(), vc.RunOpts{TimeoutMs: *timeout, Seed: envSeed(), Tier: *utier, OutDir: "/verif/out"}, stats, &mu)
		for _, ob := range u.Obligations() {
			if *quiet && ob.OK() {
				continue
			}
			if *quiet {
				fmt.Printf("%s %s\n", ob.Status, strings.TrimPrefix(ob.Name, name+"/"))
			} else {
				fmt.Println(ob.String())
			}
			if !ob.OK() {
				bad++
				if !*quiet {
					fmt.Println("    goal:", ob.Goal)
				}
				if ob.Model != "" && !*quiet {
					m := ob.Model
					if len(m) > 3000 {
						m = m[:3000]
					}
					fmt.Println(m)
				}
			}
		}
		var as []string
		for a := range u.Assumptions() {
			as = append(as, a)
		}
		sort.Strings(as)
		for _, a := range as {
			if !*quiet {
				fmt.Println("  assume:", a)
			}
		}
		fmt.Printf("%s: %d obligations in %.1fs\n", name, len(u.Obligations()), time.Since(t0).Seconds())
	}
	if bad > 0 {
		os.Exit(1)
	}
}

func envSeed() int {
	var n int
	fmt.Sscanf(os.Getenv("VERIF_SEED"), "%d", &n)
	return n
}
