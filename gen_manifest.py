#!/usr/bin/env python3
"""Regenerates MANIFEST.json from the table below (kept in one place so the file is always valid)."""
import json, subprocess
ENV = "GOFLAGS=-mod=mod GOPROXY=off GOSUMDB=off GOTOOLCHAIN=local"
claimed = {
 "C19": dict(
   text="Every obligation generated from the contracts of worstCaseDrift, timeInSync, synchronizedWithNetwork and the package initialiser is discharged by an SMT solver for all inputs: exact 64-bit arithmetic with saturating Time.Sub, all slice lengths (inductive loop invariants), all peers answering or not.",
   note="Assumes: time.Time abstracted to an integer of wall-clock ns; contracts of time.Time.Sub/IsZero, fmt.Errorf, flag.Bool; log/fmt/strings calls do not write robustirc state. Not covered: collectTime/getServerTime (goroutines/HTTP) and the call order in main().",
   design="§5 C19"),
 "C06": dict(
   text="Zero-annotation no-panic sweep: for ProcessMessage, every function registered in the command table, the login/captcha/mode helpers, the send helpers, session creation/deletion and FSM.applyRobustMessage, every potential run-time panic site in the SSA (nil dereference, index, slice, nil-map write, division, type assertion, explicit panic, log.Panic/Fatal, nil receiver of a library method) is proved unreachable for all messages and all states satisfying the representation invariant wf*, and wf* is proved to be re-established by every handler and every entry type (so it holds in every reachable state). The dispatch through the command table is proved against a template contract plus a per-registration gate lemma (MinParams, role, registration).",
   note="Assumes: lines from an authenticated services link are protocol-conforming (exactly the requires clauses labelled conforming* in internal/ircserver/contracts_verif.go); log entries name API-created sessions (Reply = 0) and CreateSession entries carry a >= 8 byte secret and a fresh id; dependencies do not panic on the arguments passed except where their assumed contract says so; OutputStream.Add is used under its assumed contract (no LevelDB I/O error). Integer arithmetic is mathematical (no overflow) in this package.",
   design="§5 C06"),
 "C14": dict(
   text="The representation invariant of the replicated IRC state (nickname index consistent and injective under the case mapping, members are owned nicknames of live sessions, a session lists a channel iff the channel lists the session, no empty channel, session/maps well-formed and separated) is proved for NewIRCServer and proved to be preserved by every command handler, ProcessMessage, session creation/deletion and FSM.applyRobustMessage for every entry type; the user-visible consequences (unique nicknames, symmetric membership, members are live) are proved as lemmas over the invariant. The session limit is the proved postcondition of createSessionLocked.",
   note="Assumes the conforming* clauses for services input (SVSNICK onto free nicknames, fresh pseudo-client ids). Not proved: syntactic validity of names (regular expressions are not interpreted) and the channel limit as a global bound (cmdJoin tests it; services JOIN/SVSJOIN create channels without the test).",
   design="§5 C14"),
 "C17": dict(
   text="Contracts of getSessionLocked/GetSession/GetAuth (found / gone iff lastProcessed.Id > id / not-yet-seen otherwise, error values passed on by identity), lemmas tying these answers to the newest applied entry (not-yet-seen for ids newer than anything applied; gone only for ids older than it) under the proved invariant that lastProcessed and all session ids never run ahead of the applied entry, the API mapping (404 never for a not-yet-seen session unless this node is the leader; GetMessages answers 500), the expiry sweep (exactly the client sessions idle longer than SessionExpiration, never pseudo-clients: loop invariant over the session map in any iteration order) and the end-of-session postconditions (nickname free, on no channel, marked, removed by MaybeDeleteSession) are all discharged.",
   note="Assumes increasing entry ids naming earlier sessions (gate-order), one clock read per sweep, one raft.State read per handler. handleGetMessages is checked against its assert@ clauses only. The leader-only timer in main() is not covered.",
   design="§5 C17"),
 "C10": dict(
   text="handlePostMessage proposes or proxies only when the session's marker differs from the request's client message id (assertions at the applyMessageWait/maybeProxyToLeader calls, against the contract of LastPostMessage); UpdateLastClientMessageID sets the marker for every message (including PING) and FSM.applyRobustMessage is proved to set it before ProcessMessage runs and for entries skipped as message of death.",
   note="Assumes the retry arrives after the first copy was applied on the handling node and that one handler run is not interleaved with an apply for the same session. Survival of the marker across snapshot/restore belongs to C03/C02 and is not part of this check.",
   design="§5 C10"),
 "C11": dict(
   text="HTTP.session is proved to succeed only when the request's non-empty X-Session-Auth equals the stored secret of exactly the named API session; handlePostMessage and handleDeleteSession require that fact (discharged at their call sites in DispatchPublic via sessionOrProxy), handleGetMessages registers, starts and writes nothing before session() succeeded; DispatchPrivateWithoutAuth is only called after user/password matched; a structural check on the SSA call graph shows every handle* method is referenced only from the dispatcher it belongs to.",
   note="Assumes net/http accessors return what the client sent and the routing set up in main(). handleGetMessages is checked against its assert@ clauses only.",
   design="§5 C11"),
 "C16": dict(
   text="handlePostConfig proposes only TOML that parsed; applyConfig proposes only for the revision currently in force, as revision+1 with the posted body; in FSM.applyRobustMessage every store to the configuration, its revision and the derived session expiration is dominated by a successful parse of a Config entry (store-anchored assertions), the revision afterwards is the entry's or the old one, and no other entry type and no command handler changes the revision (GLINE writes only the ban map inside the replicated configuration).",
   note="Assumes configuration posts are issued one after another. Survival across snapshot/restore is C03 and not part of this check.",
   design="§5 C16"),
 "C12": dict(
   text="The six send helpers are proved against set-valued contracts (the recipient map of the message is exactly: the user / all members of the channel / all members but one / every member of every channel the user lists / all nicknames / all services links — for every iteration order of the maps, via inductive invariants over a ghost visited-set). On top of them cmdPrivmsg is proved to deliver a channel message to every other member and nobody else and a private message only to the owner of the target nickname; in every client handler a numeric reply is proved to go to the causing session and the closing ERROR only to a session being closed; JOIN/PART/KICK/TOPIC/MODE/NICK/QUIT/KILL/INVITE are proved to be announced through the helper for the affected channel (resp. the subject's co-members) under the acting session's own prefix object; that prefix is proved to carry the session's current nickname and user name after every handler (invariant wfPrefix); GetMessages writes only messages whose recipient set contains the session.",
   note="Assumes the conforming* clauses for services input. The host part of the prefix is not interpreted. For notifications the statement only bounds the recipients; the proof shows which helper is called on which channel/subject. handleGetMessages is checked against its assert@ clauses only.",
   design="§5 C12"),
 "C13": dict(
   text="Guard obligations anchored at the statements that perform privileged effects, each proved on every path reaching it: stores to the topic fields need membership and, on +t channels, channel-operator status; deleting another member (KICK) needs channel-operator status; writing an invitation needs membership and, on +i channels, channel-operator status; stores to channel flags, key and the ban list need the operator privilege evaluated at command start (linked to channel-operator or IRC-operator status by a loop invariant); user modes only for oneself or by an IRC operator; KILL, GLINE's ban-map write and network-wide notices need s.Operator; s.Operator is only set after a configured name/password pair matched (contract of the authOper closure, quantified over all configured operators); s.Server only with a configured services password; joining an existing +i channel needs an invitation, a +k channel without +x the exact key, invitations are used up by the join; a captcha token is only accepted when not older than five minutes; services handlers are only dispatched for services links (dispatch gate).",
   note="Not covered: the +b clause of JOIN (banned() and regular expressions are not interpreted; DESIGN.md records that a valid captcha on a +x channel skips the +b test), the HMAC signature and 'okay:' purpose of captcha tokens. The MODE privilege is evaluated once per command, as the code does.",
   design="§5 C13"),
 "C01": dict(
   text="Effect contract 'deterministic' over the whole apply-path closure (recomputed from the SSA call graph on every run: FSM.applyRobustMessage, Unmarshal, NewIRCServer, every registered command handler, closures and function variables): no function in it calls a clock, random, environment or runtime source, starts a goroutine or touches a channel; every range over a map in the closure (25 today, enumerated from the SSA, so a new loop is checked without annotation) is shown order-independent by one of: collect-then-sort (every use of the collected slice is dominated by the sort), commuting body (only deletes, inserts of fixed values, inserts keyed by the loop key, writes to objects owned by the iteration's own value or allocated in the iteration), or first-match with at most one matching key (key equality, or the uniqueness lemma over the proved nickname-ownership invariant, discharged by SMT). Reply and message ids are proved to derive from the entry (contract of send, msgid postcondition of ProcessMessage).",
   note="The lifting from 'every function is deterministic and order-independent' to 'equal logs give equal outputs' is a stated meta-argument, not machine-checked. Assumes dependencies outside the nondeterminism list are deterministic, the command table is identical on all nodes, keyed inserts use an injective key function on the keys present. Decided by a structural (dataflow) check on the SSA plus one SMT lemma; no solver is involved in the effect/order classification.",
   design="§5 C01"),
 "C15": dict(
   text="Injection gates of the HTTP API: at the point where handlePostMessage and handleDeleteSession hand a client-supplied string to raft (assertions anchored at the applyMessageWait calls), the string is proved to contain no LF, CR or NUL for every request body (contract of strings.IndexAny). Every line a command handler hands to a send helper is proved to have a non-empty command and, when it carries a prefix, a prefix with a non-empty name (precondition lineOK of the six send helpers, discharged at all call sites in all registered handlers; needs the invariant that a relaying session has a nickname: registered clients by the dispatch gate, pseudo-clients and services links by invariant wfPrefix); every message appended to a reply is at most 510 bytes and produced by Message.Bytes from a structured message (invariant replyOK, contract of send).",
   note="Not proved: that no handler copies a control character from a parameter into a line through a path other than the two gates (irc.ParseMessage strips CR/LF at the ends only; interior CR/NUL are stopped at the gates). A line without prefix counts as well-formed (closing ERROR, lines to services). Assumes the contracts of strings.IndexAny/IndexByte/ToUpper, irc.ParseMessage (non-empty command) and irc.Message.Bytes (vendored sorcix/irc truncates at 510), non-empty -network_name (enforced in main), the conforming* clauses for services input (non-empty prefix name and server name).",
   design="§5 C15"),
 "C18": dict(
   text="One relation per format, established by every writer and inverted by every reader, all discharged for arbitrary field values: pbRepr (all 12 replicated fields of robust.Message) is the postcondition of Message.ProtoMessage and of CopyToProtoMessage (lemma: the two encoders agree field by field) and, read backwards, the assertion at the return of NewMessageFromBytes (protobuf branch), where the id is proved to default to the caller's index exactly when it is 0; raftRepr (index, term, type, data, extensions, append time) is asserted at every place a log entry is encoded (FSM.Apply, LevelDBStore.StoreLogs, ConvertToProto) and decoded (raftlog.FromBytes, LevelDBStore.GetLog, FSM.Snapshot, the text-log dump, the canary reader); keys are proved to be the entry's own index. A zero-annotation sweep over the SSA of the whole repository shows that every call of NewMessageFromBytes takes data and index from the same entry and converts the index with IdFromRaftIndex.",
   note="Assumes proto.Marshal/Unmarshal (and the JSON codec of the legacy branches) are inverse on the generated types: the contracts pin down the field-by-field code on both sides of that dependency, not the dependency. Not covered: the hand-written binary codec of the output store (messageBatch.marshal/unmarshalMessageBatch) - a variable-length byte layout whose round trip needs recursive specification functions; no contract is claimed for it.",
   design="§5 C18"),
 "C03": dict(
   text="One relation per serialized type, proved in both directions for all states and all snapshots: IRCServer.Marshal is proved (loop invariants over the session map in any iteration order) to write every session exactly once with all 22 plain fields, its user modes and its id (sessRepr, modesRepr), the whole network configuration (cfgRepr: revision, durations, key, limits, ban map, operators, services) and lastProcessed/lastIncludedIndex; IRCServer.Unmarshal is proved to re-establish the same relations between the decoded snapshot and the loaded server (including the reader's legacy fall-backs), to hold exactly the decoded sessions, and to rebuild the derived indexes: the nickname index satisfies the handlers' invariant (only sessions with a nickname, each under its own lowered nickname) and the services list holds exactly the Server sessions. Lemmas show the relations determine every related field (two states related to the same wire form agree). A structural check enumerates the fields of Session, config.Network and IRCServer from go/types and requires each to occur in the relation or on a reasoned exclusion list, so a field added to the state but not serialized is reported without annotation.",
   note="Known finding (listed, not repaired): config.Network.WhitelistedOrigins is not serialized. Fixed: nickname-less sessions were indexed under the empty nickname on load. Not covered yet: the set-valued session fields Channels/invitedTo, the channel table and nickname holds (no relation stated; their code is executed symbolically only). Assumes the protobuf library round-trips pb.Snapshot, Duration.String/ParseDuration and hex encode/decode are inverse, times lie in the int64-nanosecond range, snapshots are taken between entries (no deleted sessions), Unmarshal runs on a fresh server.",
   design="§5 C03"),
 "C07": dict(
   text="Function-level part of the containment argument, for all entries: the deferred recover handler of FSM.applyProto (verified as its own unit, the closure applyProto$1) is proved to re-encode exactly the message being applied with its type set to MessageOfDeath and to write exactly that log entry (same index, term, type) to the durable raft log store fsm.store before terminating; FSM.applyRobustMessage is proved to do nothing for such an entry except advancing the session's duplicate-detection marker (postconditions mod-marked and mod-frame: no session, nickname, channel or configuration change), UpdateLastClientMessageID sets the marker for every entry type; FSM.Snapshot is proved to fold a marked entry through applyRobustMessage before deleting it (the marker of the snapshot state has advanced over every marked entry it drops).",
   note="Not covered: that a panic actually reaches the handler and the process exits (panic/exit control flow is not modelled), the restart, raft's own replay; 'all other entries keep their effect' is C01/C02. Assumes glog.Fatalf terminates, the store keeps what StoreLogProto wrote (C09), proto.Marshal encodes its argument (C18).",
   design="§5 C07"),
 "C09": dict(
   text="Function-level obligations of the store, for all arguments: DeleteRange iterates from the key of min to the smallest key greater than the key of max without any arithmetic that could wrap (exact 64-bit arithmetic) and a successful call has written its batch (postcondition over an assumed write counter); GetLog maps the database's not-found error to raft.ErrLogNotFound and, like raftlog.FromBytes, decodes every field of the stored entry (raftRepr); StoreLogs/StoreLogProto/ConvertToProto encode every field and file each entry under the 8-byte key of its own index; the stable-store methods only touch keys that start with 'stablestore-' (12 bytes), so log keys and stable keys can never be equal.",
   note="Not covered: FirstIndex/LastIndex, the empty-log answer, and everything about operation sequences, close/reopen and kill/reopen - these need a model of the ordered key-value store and of iterator positions that the contracts do not have; goleveldb itself is assumed to keep what it is given. Fixed: DeleteRange(min, MaxUint64) deleted nothing (max+1 wrapped).",
   design="§5 C09"),
}
na = {
 "C05": "whole-system property over process kills, restarts and leader changes of several OS processes running hashicorp/raft; no function contract within reach expresses it (DESIGN §5 C05)",
}
notbuilt = ["C02","C04","C08","C20"]
checks = []
for pid, c in sorted(claimed.items()):
    checks.append({
      "property_id": pid,
      "quick_cmd": f"cd /verif && {ENV} bin/govc check {pid} --tier quick",
      "thorough_cmd": f"cd /verif && {ENV} bin/govc check {pid} --tier thorough",
      "evidence_file": f"/verif/evidence/{pid}.json",
      "engine": "govc",
      "level_claimed": {"category": "proof", "text": c["text"], "design_ref": c["design"]},
      "level_note": c["note"],
      "technique": "contract-based deductive verification: weakest-precondition style VC generation over go/ssa of the real functions, contracts in //go:build verif comment files, obligations discharged by z3/cvc5",
    })
for pid in notbuilt:
    if pid not in claimed and pid not in na:
        na[pid] = "not claimed yet: contracts for this property are not yet written/discharged in this state of /verif (see DESIGN.md §5 for the plan); no other technique is substituted"
try:
    commits = subprocess.check_output(["git","-C","/repo","log","--format=%H %s"]).decode().splitlines()
except Exception:
    commits = []
hooks = [c.split()[0] for c in commits if " verif hook:" in c]
m = {
 "version": 1,
 "setup_cmd": f"cd /verif && {ENV} go build -o bin/govc ./cmd/govc",
 "hooks": {"guard": "verif", "enable": "go/packages BuildFlags -tags=verif (comment-only contracts_verif.go files; no executable code is added)",
           "baseline_off_cmd": "cd /repo && go test -vet=off -count=1 -timeout 25m ./...",
           "source_commits": hooks, "add_only": True},
 "engines": [{"name": "govc", "path": "/verif/cmd/govc", "serves_properties": sorted(claimed), "kind_free_text": "VC generator over go/ssa + SMT (z3 5.1.0, z3 4.8.12, cvc5 1.0.3)"}],
 "checks": checks,
 "not_applicable": [{"property_id": k, "reason": v} for k, v in sorted(na.items())],
 "notes": "Known findings and fixes: /verif/known_findings.txt. DESIGN.md describes the approach.",
}
json.dump(m, open("/verif/MANIFEST.json","w"), indent=1)
print("claimed:", sorted(claimed), "n/a:", sorted(na))
