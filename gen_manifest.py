#!/usr/bin/env python3
"""Regenerates MANIFEST.json from the table below (kept in one place so the file is always valid)."""
import json, subprocess
ENV = "GOFLAGS=-mod=mod GOPROXY=off GOSUMDB=off GOTOOLCHAIN=local"
claimed = {
 "C19": dict(
   text="Every obligation generated from the contracts of worstCaseDrift, timeInSync, synchronizedWithNetwork and the package initialiser is discharged by an SMT solver for all inputs: exact 64-bit arithmetic with saturating Time.Sub, all slice lengths (inductive loop invariants), all peers answering or not.",
   note="Assumes: time.Time abstracted to an integer of wall-clock ns; contracts of time.Time.Sub/IsZero, fmt.Errorf, flag.Bool; log/fmt/strings calls do not write robustirc state. Not covered: collectTime/getServerTime (goroutines/HTTP) and the call order in main().",
   design="§5 C19"),
}
na = {
 "C05": "whole-system property over process kills, restarts and leader changes of several OS processes running hashicorp/raft; no function contract within reach expresses it (DESIGN §5 C05)",
}
notbuilt = ["C01","C02","C03","C04","C06","C07","C08","C09","C10","C11","C12","C13","C14","C15","C16","C17","C18","C20"]
checks = []
for pid, c in sorted(claimed.items()):
    checks.append({
      "property_id": pid,
      "quick_cmd": f"cd /verif && {ENV} bin/govc check {pid} --tier quick",
      "thorough_cmd": f"cd /verif && {ENV} bin/govc check {pid} --tier thorough",
      "evidence_file": f"/verif/evidence/{pid}.json",
      "engine": "govc",
      "level_claimed": {"category": "proof", "text": c["text"], "design_ref": c["design"]},
      "level_note": c["note"],
      "technique": "contract-based deductive verification: weakest-precondition style VC generation over go/ssa of the real functions, contracts in //go:build verif comment files, obligations discharged by z3/cvc5",
    })
for pid in notbuilt:
    if pid not in claimed and pid not in na:
        na[pid] = "not claimed yet: contracts for this property are not yet written/discharged in this state of /verif (see DESIGN.md §5 for the plan); no other technique is substituted"
try:
    commits = subprocess.check_output(["git","-C","/repo","log","--format=%H %s"]).decode().splitlines()
except Exception:
    commits = []
hooks = [c.split()[0] for c in commits if " verif hook:" in c]
m = {
 "version": 1,
 "setup_cmd": f"cd /verif && {ENV} go build -o bin/govc ./cmd/govc",
 "hooks": {"guard": "verif", "enable": "go/packages BuildFlags -tags=verif (comment-only contracts_verif.go files; no executable code is added)",
           "baseline_off_cmd": "cd /repo && go test -vet=off -count=1 -timeout 25m ./...",
           "source_commits": hooks, "add_only": True},
 "engines": [{"name": "govc", "path": "/verif/cmd/govc", "serves_properties": sorted(claimed), "kind_free_text": "VC generator over go/ssa + SMT (z3 5.1.0, z3 4.8.12, cvc5 1.0.3)"}],
 "checks": checks,
 "not_applicable": [{"property_id": k, "reason": v} for k, v in sorted(na.items())],
 "notes": "Known findings and fixes: /verif/known_findings.txt. DESIGN.md describes the approach.",
}
json.dump(m, open("/verif/MANIFEST.json","w"), indent=1)
print("claimed:", sorted(claimed), "n/a:", sorted(na))
