package props

import (
	"fmt"
	"go/types"
	"sort"
	"strings"

	"golang.org/x/tools/go/ssa"
	"verif/internal/vc"
)

// applyRoots are the entry points of everything that must be a function of the log.
var applyRoots = []string{"main.FSM.applyRobustMessage", "ircserver.IRCServer.Unmarshal", "ircserver.NewIRCServer"}

// closureOf computes the functions of the repository reachable from the roots through static
// calls, closures, the command table and package-level function variables.
func closureOf(e *vc.Engine, roots []string) map[*ssa.Function]bool {
	seen := map[*ssa.Function]bool{}
	var work []*ssa.Function
	add := func(f *ssa.Function) {
		if f == nil || seen[f] || len(f.Blocks) == 0 {
			return
		}
		if !strings.HasPrefix(fnPkgPath(f), vc.RepoModule) {
			return
		}
		seen[f] = true
		work = append(work, f)
	}
	for _, r := range roots {
		add(e.FuncByName(r))
	}
	regs, _ := e.ScanRegistrations("ircserver", "Commands")
	for len(work) > 0 {
		f := work[len(work)-1]
		work = work[:len(work)-1]
		if vc.ShortName(f) == "ircserver.IRCServer.ProcessMessage" {
			for _, r := range regs {
				add(r.Handler)
			}
		}
		for _, af := range f.AnonFuncs {
			add(af)
		}
		for _, b := range f.Blocks {
			for _, ins := range b.Instrs {
				for _, op := range ins.Operands(nil) {
					switch x := (*op).(type) {
					case *ssa.Function:
						add(x)
					case *ssa.MakeClosure:
						if fn, ok := x.Fn.(*ssa.Function); ok {
							add(fn)
						}
					case *ssa.Global:
						// package-level function variables: their initialiser
						if iv := e.GlobalInitValue(x); iv != nil {
							switch y := iv.(type) {
							case *ssa.Function:
								add(y)
							case *ssa.MakeClosure:
								if fn, ok := y.Fn.(*ssa.Function); ok {
									add(fn)
								}
							}
						}
					}
				}
				if c, ok := ins.(ssa.CallInstruction); ok {
					if sc := c.Common().StaticCallee(); sc != nil {
						add(sc)
					}
				}
			}
		}
	}
	return seen
}

// ApplyClosure lists the closure and its map-range sites (developer tool).
func ApplyClosure(e *vc.Engine) ([]string, []string) {
	cl := closureOf(e, applyRoots)
	var fns, sites []string
	for f := range cl {
		fns = append(fns, vc.ShortName(f))
		for _, b := range f.Blocks {
			for _, ins := range b.Instrs {
				if r, ok := ins.(*ssa.Range); ok {
					if _, isMap := r.X.Type().Underlying().(*types.Map); isMap {
						sites = append(sites, fmt.Sprintf("%s: %s", vc.ShortName(f), e.PosText(r.Pos())))
					}
				}
			}
		}
	}
	sort.Strings(sites)
	return fns, sites
}

// ---------------------------------------------------------------------------
// nondeterminism sources: none may be called anywhere in the closure

var nondetCallees = map[string]bool{
	"time.Now": true, "time.Since": true, "time.Until": true, "time.After": true, "time.Tick": true, "time.NewTimer": true,
	"os.Getenv": true, "os.Hostname": true, "os.Getpid": true, "os.Environ": true,
}

var nondetPkgs = map[string]bool{"math/rand": true, "crypto/rand": true, "runtime": true, "math/rand/v2": true}

func isNondetCallee(f *ssa.Function) bool {
	if f == nil {
		return false
	}
	if nondetCallees[vc.ShortName(f)] {
		return true
	}
	return nondetPkgs[fnPkgPath(f)]
}

// ---------------------------------------------------------------------------
// effect summaries

type effClass int

const (
	effPure  effClass = iota // no heap writes
	effComm                  // only deletes, inserts of constants / fixed values, stores of constants
	effOther
)

type effAnalysis struct {
	e     *vc.Engine
	memo  map[*ssa.Function]effClass
	stack map[*ssa.Function]bool
}

func (a *effAnalysis) classOf(f *ssa.Function) effClass {
	if c, ok := a.memo[f]; ok {
		return c
	}
	if a.stack[f] {
		return effOther
	}
	if len(f.Blocks) == 0 || !strings.HasPrefix(fnPkgPath(f), vc.RepoModule) {
		// dependencies are assumed not to write robustirc state (the engine's default for calls)
		return effPure
	}
	a.stack[f] = true
	c := effPure
	for _, b := range f.Blocks {
		for _, ins := range b.Instrs {
			if k := a.instrClass(ins, nil); k > c {
				c = k
			}
		}
	}
	delete(a.stack, f)
	a.memo[f] = c
	return c
}

// instrClass classifies one instruction; inLoop (may be nil) is the set of blocks of the loop whose
// body is being classified (allocations inside it are iteration-local).
func (a *effAnalysis) instrClass(ins ssa.Instruction, inLoop map[*ssa.BasicBlock]bool) effClass {
	localAlloc := func(v ssa.Value) bool {
		for {
			switch x := v.(type) {
			case *ssa.Alloc:
				return inLoop == nil && !x.Heap || inLoop != nil && inLoop[x.Block()]
			case *ssa.FieldAddr:
				v = x.X
			case *ssa.IndexAddr:
				v = x.X
			case *ssa.MakeMap:
				return inLoop != nil && inLoop[x.Block()]
			default:
				return false
			}
		}
	}
	switch x := ins.(type) {
	case *ssa.Store:
		if localAlloc(x.Addr) {
			return effPure
		}
		if _, ok := x.Val.(*ssa.Const); ok {
			return effComm
		}
		return effOther
	case *ssa.MapUpdate:
		if localAlloc(x.Map) {
			return effPure
		}
		if _, ok := x.Value.(*ssa.Const); ok {
			return effComm
		}
		return effOther
	case *ssa.Send, *ssa.Go, *ssa.Select:
		return effOther
	case ssa.CallInstruction:
		c := x.Common()
		if b, ok := c.Value.(*ssa.Builtin); ok {
			switch b.Name() {
			case "delete":
				return effComm
			case "append", "copy":
				return effOther
			}
			return effPure
		}
		if c.IsInvoke() {
			return effPure // interface methods of dependencies (hash.Hash etc.)
		}
		sc := c.StaticCallee()
		if sc == nil {
			return effOther
		}
		return a.classOf(sc)
	}
	return effPure
}

// ---------------------------------------------------------------------------

// uniqueMatch: loops that stop at the first key satisfying a guard and whose guard can be
// satisfied by at most one key; the lemma is proved with the other obligations of C01.
var uniqueMatch = map[string]string{
	"ircserver.IRCServer.cmdServerKill/range i.sessions":  "ircserver.lemma_uniquepseudo",
	"ircserver.IRCServer.cmdServerQuit/range i.sessions#1": "ircserver.lemma_uniquepseudo",
}

func c01Structural(e *vc.Engine) []StructResult {
	var out []StructResult
	cl := closureOf(e, applyRoots)
	if len(cl) < 60 {
		out = append(out, StructResult{Name: "C01/closure/size", OK: false, Detail: fmt.Sprintf("only %d functions reachable from the apply path", len(cl))})
	}
	var fns []*ssa.Function
	for f := range cl {
		fns = append(fns, f)
	}
	sort.Slice(fns, func(i, j int) bool { return vc.ShortName(fns[i]) < vc.ShortName(fns[j]) })
	an := &effAnalysis{e: e, memo: map[*ssa.Function]effClass{}, stack: map[*ssa.Function]bool{}}
	for _, f := range fns {
		name := vc.ShortName(f)
		// 1. no nondeterministic source, no goroutines, no channel operations
		bad := ""
		for _, b := range f.Blocks {
			for _, ins := range b.Instrs {
				switch x := ins.(type) {
				case *ssa.Go:
					bad = "starts a goroutine"
				case *ssa.Send, *ssa.Select:
					bad = "channel operation"
				case *ssa.UnOp:
					if x.Op.String() == "<-" {
						bad = "channel receive"
					}
				case ssa.CallInstruction:
					if sc := x.Common().StaticCallee(); sc != nil && isNondetCallee(sc) {
						bad = "calls " + vc.ShortName(sc) + " (" + e.PosText(ins.Pos()) + ")"
					}
				}
			}
		}
		out = append(out, StructResult{Name: name + "/effect/deterministic-sources", OK: bad == "",
			Detail: name + " is on the apply path and " + bad + ": its result would depend on something outside the log"})
		// 2. every range over a map is order independent
		counts := map[string]int{}
		for _, b := range f.Blocks {
			for _, ins := range b.Instrs {
				r, ok := ins.(*ssa.Range)
				if !ok {
					continue
				}
				if _, isMap := r.X.Type().Underlying().(*types.Map); !isMap {
					continue
				}
				key := "range " + e.ExprTextAt(r.X.Pos(), r.Pos())
				n := counts[key]
				counts[key] = n + 1
				site := fmt.Sprintf("%s/%s", name, key)
				if n > 0 {
					site = fmt.Sprintf("%s#%d", site, n)
				}
				ok2, why := orderIndependent(e, an, f, r, site)
				out = append(out, StructResult{Name: site + "/order", OK: ok2, Detail: why})
			}
		}
	}
	return out
}

// orderIndependent decides one map-range loop.
func orderIndependent(e *vc.Engine, an *effAnalysis, f *ssa.Function, r *ssa.Range, site string) (bool, string) {
	// the loop: header = block of the Next instruction
	var next *ssa.Next
	for _, ref := range *r.Referrers() {
		if n, ok := ref.(*ssa.Next); ok {
			next = n
		}
	}
	if next == nil {
		return false, "range without next"
	}
	h := next.Block()
	loop := map[*ssa.BasicBlock]bool{h: true}
	for _, p := range h.Preds {
		if h.Dominates(p) {
			var stack []*ssa.BasicBlock
			if !loop[p] {
				loop[p] = true
				stack = append(stack, p)
			}
			for len(stack) > 0 {
				x := stack[len(stack)-1]
				stack = stack[:len(stack)-1]
				for _, q := range x.Preds {
					if !loop[q] {
						loop[q] = true
						stack = append(stack, q)
					}
				}
			}
		}
	}
	// blocks that can reach a back edge (= the iteration continues afterwards)
	continues := map[*ssa.BasicBlock]bool{}
	for _, p := range h.Preds {
		if h.Dominates(p) && loop[p] {
			var stack = []*ssa.BasicBlock{p}
			continues[p] = true
			for len(stack) > 0 {
				x := stack[len(stack)-1]
				stack = stack[:len(stack)-1]
				for _, q := range x.Preds {
					if loop[q] && !continues[q] && q != h {
						continues[q] = true
						stack = append(stack, q)
					}
				}
			}
		}
	}
	var appendTargets []*ssa.Phi
	appendCells := map[*ssa.Alloc]bool{}
	worst := effPure
	worstWhere := ""
	exitOnly := true // every effect beyond "commutative" happens in a block from which the loop is left
	for b := range loop {
		for _, ins := range b.Instrs {
			// appends to a slice variable carried around the loop: S2
			if c, ok := ins.(*ssa.Call); ok {
				if bi, ok := c.Call.Value.(*ssa.Builtin); ok && bi.Name() == "append" {
					if phi := slicePhi(c.Call.Args[0], h); phi != nil {
						appendTargets = append(appendTargets, phi)
						continue
					}
					// a slice variable that lives in a cell (captured by the sort closure): x = append(x, ...)
					if ld, ok := c.Call.Args[0].(*ssa.UnOp); ok {
						if al, ok := ld.X.(*ssa.Alloc); ok && !loop[al.Block()] {
							stored := false
							for _, ref := range *c.Referrers() {
								if st, ok := ref.(*ssa.Store); ok && st.Addr == ssa.Value(al) {
									stored = true
								}
							}
							if stored {
								appendCells[al] = true
								continue
							}
						}
					}
				}
			}
			if st, ok := ins.(*ssa.Store); ok {
				if al, ok := st.Addr.(*ssa.Alloc); ok && appendCells[al] {
					continue
				}
			}
			k := an.instrClass(ins, loop)
			if k == effOther {
				// keyed insert: m[f(key)] = g(value) into a map that is not iteration-local; or an
				// update of a map owned by the iteration's own value (distinct iterations write distinct
				// objects: separation is part of the proved representation invariant)
				if mu, ok := ins.(*ssa.MapUpdate); ok && (dependsOn(mu.Key, next) || dependsOn(mu.Map, next)) {
					k = effComm
				}
			}
			if k > worst {
				worst = k
				worstWhere = e.PosText(ins.Pos())
			}
			if k == effOther && continues[b] {
				exitOnly = false
			}
		}
	}
	if worst <= effComm {
		// S2: everything appended must be sorted before any other use
		for _, phi := range appendTargets {
			if ok, why := sortedBeforeUse(phi, loop); !ok {
				return false, "the loop collects into a slice in map order and " + why
			}
		}
		for al := range appendCells {
			if ok, why := cellSortedBeforeUse(al, loop); !ok {
				return false, "the loop collects into a slice in map order and " + why
			}
		}
		if len(appendTargets) > 0 || len(appendCells) > 0 {
			return true, "collect-then-sort: the collected slice is sorted before it is used"
		}
		return true, "the body only deletes, inserts fixed values or entries keyed by the loop key, or writes iteration-local objects: iterations commute (keyed inserts assume the key function is injective on the keys present)"
	}
	if exitOnly {
		// S3: first match wins; at most one key may match
		if guardIsKeyEquality(next, loop) {
			return true, "first-match loop whose guard compares the loop key for equality: at most one key matches"
		}
		if lemma, ok := uniqueMatch[site]; ok {
			if e.Specs.Contracts[lemma] != nil {
				return true, "first-match loop; at most one key satisfies the guard by " + lemma
			}
			return false, "first-match loop: uniqueness lemma " + lemma + " is missing"
		}
		return false, "first-match loop (effects at " + worstWhere + ") without a uniqueness argument: which key is found first depends on the map order"
	}
	return false, "the loop body has order-sensitive effects (" + worstWhere + ") and the iteration continues afterwards: the result depends on the map iteration order"
}

func slicePhi(v ssa.Value, h *ssa.BasicBlock) *ssa.Phi {
	if p, ok := v.(*ssa.Phi); ok && p.Block() == h {
		return p
	}
	return nil
}

func dependsOn(v ssa.Value, next *ssa.Next) bool {
	seen := map[ssa.Value]bool{}
	var rec func(ssa.Value) bool
	rec = func(x ssa.Value) bool {
		if x == nil || seen[x] {
			return false
		}
		seen[x] = true
		if x == ssa.Value(next) {
			return true
		}
		if ins, ok := x.(ssa.Instruction); ok {
			for _, op := range ins.Operands(nil) {
				if rec(*op) {
					return true
				}
			}
		}
		return false
	}
	return rec(v)
}

// sortedBeforeUse: outside the loop, the first use of the collected slice is sort.Strings/sort.Slice
// and it dominates every other use.
func sortedBeforeUse(phi *ssa.Phi, loop map[*ssa.BasicBlock]bool) (bool, string) {
	var sortCall ssa.Instruction
	var others []ssa.Instruction
	for _, ref := range *phi.Referrers() {
		if loop[ref.Block()] {
			continue
		}
		if _, ok := ref.(*ssa.DebugRef); ok {
			continue
		}
		if c, ok := ref.(*ssa.Call); ok {
			if sc := c.Call.StaticCallee(); sc != nil {
				n := vc.ShortName(sc)
				if n == "sort.Strings" || n == "sort.Slice" || n == "sort.Sort" {
					sortCall = ref
					continue
				}
			}
		}
		others = append(others, ref)
	}
	if sortCall == nil {
		if len(others) == 0 {
			return true, ""
		}
		return false, "uses it without sorting it first"
	}
	for _, o := range others {
		if op, ok := o.(*ssa.Phi); ok {
			// a merge with values from other paths: the edges that carry our slice must come after the sort
			okAll := true
			for k, ev := range op.Edges {
				if ev == ssa.Value(phi) {
					pred := op.Block().Preds[k]
					if !(pred == sortCall.Block() || sortCall.Block().Dominates(pred)) {
						okAll = false
					}
				}
			}
			if okAll {
				continue
			}
			return false, "merges it into later code on a path that does not pass the sort"
		}
		if !(sortCall.Block() == o.Block() && before(sortCall, o) || sortCall.Block() != o.Block() && sortCall.Block().Dominates(o.Block())) {
			return false, "uses it on a path that does not pass the sort"
		}
	}
	return true, ""
}

func before(a, b ssa.Instruction) bool {
	for _, ins := range a.Block().Instrs {
		if ins == a {
			return true
		}
		if ins == b {
			return false
		}
	}
	return false
}

// guardIsKeyEquality: the loop continues (back edge) directly from a comparison of the loop key with a
// loop-invariant value for inequality.
func guardIsKeyEquality(next *ssa.Next, loop map[*ssa.BasicBlock]bool) bool {
	for b := range loop {
		if len(b.Instrs) == 0 {
			continue
		}
		iff, ok := b.Instrs[len(b.Instrs)-1].(*ssa.If)
		if !ok {
			continue
		}
		bo, ok := iff.Cond.(*ssa.BinOp)
		if !ok || (bo.Op.String() != "!=" && bo.Op.String() != "==") {
			continue
		}
		if keyOf(bo.X, next) || keyOf(bo.Y, next) {
			return true
		}
	}
	return false
}

func keyOf(v ssa.Value, next *ssa.Next) bool {
	for {
		switch x := v.(type) {
		case *ssa.Extract:
			return x.Tuple == ssa.Value(next) && x.Index == 1
		case *ssa.ChangeType:
			v = x.X
		case *ssa.Convert:
			v = x.X
		default:
			return false
		}
	}
}

func init() {
	post := vc.UnitOpts{Post: true, Frame: true}
	p := &Plan{
		ID:       "C01",
		Patterns: []string{"."},
		Assumptions: []string{
			"meta-argument (stated in DESIGN.md, not machine-checked): a sequential Go function whose callees are deterministic, that reads no nondeterministic source and whose map loops are order-independent is a function of its arguments and the reachable heap",
			"dependencies not on the nondeterminism list are deterministic (toml.Decode, regexp, fmt.Sprintf, hmac, base64, strconv, sort)",
			"the command table is the same on all nodes (it depends on ROBUSTIRC_TESTING_ENABLE_PANIC_COMMAND at init)",
			"keyed inserts (m[f(key)] = ...) assume f is injective on the keys present (snapshots written by Marshal carry lower-cased keys and the case mapping is idempotent)",
			"the byte order in which the recipient set of an output message is written to the output store follows the map order; readers reconstruct the set (C18)",
		},
		NotCovered: []string{"the tolerated difference: the human-readable server start time in numeric 003 is read from i.ServerCreation (a field, not a clock call)"},
	}
	p.Prepare = func(e *vc.Engine) error {
		if _, err := prepareIRC(e); err != nil {
			return err
		}
		// reply ids and message ids derive from the entry: contract of send()
		p.Units = []UnitPlan{{"ircserver.IRCServer.send", post}, {"ircserver.IRCServer.ProcessMessage", vc.UnitOpts{Post: true, PostOnly: []string{"replyids"}}}}
		return nil
	}
	p.Structural = c01Structural
	p.ExtraUnits = func(e *vc.Engine) ([]*vc.Unit, error) { return lemmaUnits(e, "ircserver", "ircserver.lemma_uniquepseudo") }
	register(p)
}

// cellSortedBeforeUse: the slice variable lives in a cell; outside the loop its first read feeds
// sort.Slice/sort.Strings and that call dominates every other read in this function.
func cellSortedBeforeUse(al *ssa.Alloc, loop map[*ssa.BasicBlock]bool) (bool, string) {
	var sortCall ssa.Instruction
	var loads []ssa.Instruction
	for _, ref := range *al.Referrers() {
		ld, ok := ref.(*ssa.UnOp)
		if !ok || loop[ld.Block()] {
			continue
		}
		isSortArg := false
		for _, r2 := range *ld.Referrers() {
			var v ssa.Value
			switch x := r2.(type) {
			case *ssa.MakeInterface:
				v = x
			case *ssa.Call:
				v = nil
				if sc := x.Call.StaticCallee(); sc != nil && vc.ShortName(sc) == "sort.Strings" {
					isSortArg = true
					sortCall = x
				}
			}
			if v != nil {
				for _, r3 := range *v.Referrers() {
					if c, ok := r3.(*ssa.Call); ok {
						if sc := c.Call.StaticCallee(); sc != nil && (vc.ShortName(sc) == "sort.Slice" || vc.ShortName(sc) == "sort.Sort") {
							isSortArg = true
							sortCall = c
						}
					}
				}
			}
		}
		if !isSortArg {
			loads = append(loads, ld)
		}
	}
	if sortCall == nil {
		if len(loads) == 0 {
			return true, ""
		}
		return false, "uses it without sorting it first"
	}
	for _, o := range loads {
		if !(sortCall.Block() == o.Block() && before(sortCall, o) || sortCall.Block() != o.Block() && sortCall.Block().Dominates(o.Block())) {
			return false, "uses it on a path that does not pass the sort"
		}
	}
	return true, ""
}
