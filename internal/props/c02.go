package props

import "verif/internal/vc"

func init() {
	p := &Plan{
		ID:       "C02",
		Patterns: []string{"."},
		Assumptions: []string{
			"ghost model of the node-local log copy: LevelDBStore.idx is the set of stored log indexes; FirstIndex/LastIndex return its minimum/maximum (0 when empty, never an error), GetBulkIterator(start, limit) walks the indexes present at its creation within [start, limit) in ascending order (goleveldb iterators read a snapshot of the database; keys are the 8-byte big-endian form of the index), DeleteRange(min, max) removes exactly [min, max], StoreLog/StoreLogProto add the entry's index: the ensures clauses labelled assumed- in internal/raftstore/contracts_verif.go and contracts/deps.spec. They are NOT proved against the bodies (which go through goleveldb); the bounded stand-in of C09 compares the same operations with a map on a real LevelDB",
			"the log copy holds log entries only (no StableStore call is ever made on fsm.ircstore), so a bulk iterator over it meets 8-byte keys only",
			"ghost model of the output store: OutputStream.stored is the set of inputs (by raft index) that have a batch in the store; Delete(id) removes exactly the batch of that input (assumed-deleted)",
			"every replicated message belongs to exactly one log entry: robust.idxOf(id) is the raft index of the entry carrying message id; an entry read back from the log copy carries its own index and decodes (assume@ clauses c02-stored-entry, c02-own-id in FSM.Snapshot and FSM.Apply)",
			"no LevelDB I/O error in OutputStream.Delete and LevelDBStore.DeleteRange (c02-no-io-error; Snapshot ignores the error of DeleteRange)",
			"raft hands entries to Apply in increasing index order (requires of FSM.Apply: l.Index > FSM.hw) and runs Snapshot and Restore on the same goroutine as Apply (no interleaving with Apply; applying an entry does not replace the process-wide output stream: c02-same-stream)",
			"ghost definitions (labelled ghost-, not obligations): FSM.log/FSM.hw are updated by Apply; IRCServer.applied is emptied by NewIRCServer, extended by applyRobustMessage with the entry of the message, carried through Marshal/Unmarshal by snapApplied. What a state 'has absorbed' means for the IRC state itself is C03 (state round trip) and C01 (determinism of applying an entry)",
			"preconditions of callees inside Snapshot and Apply (representation invariant of the IRC state, stream invariant, fresh server for Unmarshal) are assumed here; they are obligations of C06/C14/C08/C03",
			"functions of internal/ircserver, internal/outputstream, internal/raftstore cannot write the package-level variables of package main (it cannot be imported and they are handed no function value)",
		},
		NotCovered: []string{
			"robustSnapshot.Persist (the byte stream written to the sink), FSM.Restore, decodeProtobuf/decodeJson and process restart: the composition 'restore of what Persist wrote re-establishes the invariant' is not stated (no model of the snapshot sink/reader); a failed Persist changes nothing in the FSM (Snapshot has already filed the state and dropped the entries; the next Snapshot continues from the filed state - covered by the invariant), raft's own handling of a failed snapshot is outside",
			"that the folded state equals the state of a node that replayed the same entries is composed from C01 (applying an entry is deterministic) and C03 (Marshal/Unmarshal round trip); here only WHICH entries a state has absorbed is tracked",
			"the error path of IRCServer.Marshal after the fold (proto.Marshal failing) would drop the folded entries without filing the state; canary mode (skipDeletionForCanary) is only covered for the serialized state, not for the invariant",
			"output for retained inputs is served identically: Snapshot deletes exactly the batches of folded inputs (postcondition over the ghost set), Get/GetNext themselves are C08",
		},
	}
	p.Prepare = func(e *vc.Engine) error {
		if _, err := prepareIRC(e); err != nil {
			return err
		}
		p.Units = []UnitPlan{
			{"main.FSM.Snapshot", vc.UnitOpts{Post: true, Asserts: true, AssumePre: true, Cover: true}},
			{"main.FSM.Apply", vc.UnitOpts{Post: true, Asserts: true, AssumePre: true, Cover: true}},
			{"main.FSM.applyRobustMessage", vc.UnitOpts{Post: true, PostOnly: []string{"c02-fsm-kept"}, Frame: true}},
			{"ircserver.IRCServer.Unmarshal", vc.UnitOpts{FrameOnly: true, Frame: true, Post: true, PostOnly: []string{"-"}, Groups: []string{"-"}}},
			{"outputstream.OutputStream.Delete", vc.UnitOpts{FrameOnly: true, Frame: true, Post: true, PostOnly: []string{"-"}}},
			{"raftstore.LevelDBStore.DeleteRange", vc.UnitOpts{FrameOnly: true, Frame: true, Post: true, PostOnly: []string{"-"}}},
		}
		return nil
	}
	register(p)
}
