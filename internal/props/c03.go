package props

import (
	"fmt"
	"go/types"
	"regexp"
	"strings"

	"verif/internal/vc"
)

// fieldCoverage: every field of the struct type must be mentioned (as <param>.<field>) in one of the
// relation predicates, or be on the exclusion list with a reason. A field that is added to the state
// but not to the relation (and hence, by the proved contracts, not written or not read back) shows
// up here without any annotation.
type fieldRule struct {
	pkg, typ string
	param    string   // name of the predicate parameter that stands for the Go value
	preds    []string // predicates whose text is searched
	excluded map[string]string
}

func fieldCoverage(e *vc.Engine, rules []fieldRule) []StructResult {
	var out []StructResult
	for _, r := range rules {
		pk := e.PkgByName(r.pkg)
		if pk == nil {
			out = append(out, StructResult{Name: fmt.Sprintf("%s.%s/complete", r.pkg, r.typ), Detail: "package not loaded"})
			continue
		}
		obj := pk.Scope().Lookup(r.typ)
		if obj == nil {
			out = append(out, StructResult{Name: fmt.Sprintf("%s.%s/complete", r.pkg, r.typ), Detail: "type not found"})
			continue
		}
		st, ok := obj.Type().Underlying().(*types.Struct)
		if !ok {
			continue
		}
		var text string
		for _, pn := range r.preds {
			if p := e.Specs.Preds[pn]; p != nil {
				text += " " + p.Src
			} else {
				out = append(out, StructResult{Name: fmt.Sprintf("%s.%s/complete/pred-%s", r.pkg, r.typ, pn), Detail: "predicate not found"})
			}
		}
		for k := 0; k < st.NumFields(); k++ {
			f := st.Field(k).Name()
			name := fmt.Sprintf("%s.%s/complete/%s", r.pkg, r.typ, f)
			if why, ex := r.excluded[f]; ex {
				out = append(out, StructResult{Name: name, OK: true, Detail: "excluded: " + why})
				continue
			}
			re := regexp.MustCompile(`\b` + regexp.QuoteMeta(r.param) + `\.` + regexp.QuoteMeta(f) + `\b`)
			if re.MatchString(text) {
				out = append(out, StructResult{Name: name, OK: true, Detail: "related by " + strings.Join(r.preds, ", ")})
			} else {
				out = append(out, StructResult{Name: name, Detail: fmt.Sprintf("field %s.%s.%s does not occur in %s: it is part of the state but not of the serialization relation, so saving and loading loses it", r.pkg, r.typ, f, strings.Join(r.preds, ", "))})
			}
		}
	}
	return out
}

// marshalUnits: the proof of the two big tables written by Marshal (sessions, channels), split so that every
// solver query sees only the invariants it needs: one unit per family of clauses, the families it builds
// on assumed (vc.UnitOpts.AssumeGroups) and proved by their own units. Families of the channel table:
// inner (the invariants of the four loops over the current channel), keys/shape (what is known about every
// entry built so far), and chanRepr/chanNicksW in five pieces, each carried (o-: outer loop invariant, k-:
// kept across the work on the current channel, b-: holds for the entry just built, f-: holds when the
// snapshot is assembled) by its own unit. The session table is split the same way. Two rules learnt the
// hard way: "every element has a key" and "every key has an element" never meet in one query (together
// they are a matching loop), and every existential that a new list element witnesses gets that element
// named by an assert@after append.
func marshalUnits() []UnitPlan {
	const fn = "ircserver.IRCServer.Marshal"
	var units []UnitPlan
	mk := func(prove, assume []string) {
		// the loopframe obligations of Marshal depend on the code alone: the config unit of the plan (and the
		// first unit here) generate them, the others do not repeat them
		units = append(units, UnitPlan{fn, vc.UnitOpts{Asserts: true, Groups: prove, AssumeGroups: assume, SkipLoopFrame: len(units) > 0}})
	}
	cat := func(ls ...[]string) []string {
		var out []string
		for _, l := range ls {
			out = append(out, l...)
		}
		return out
	}
	l := func(s ...string) []string { return s }
	// the channel table
	cur := l("chanw-cur")
	inner := l("chanw-cur", "chanw-nicks", "chanw-nshape", "chanw-nsound", "chanw-ncomplete", "chanw-modes", "chanw-modes2", "chanw-bans")
	keys := l("chanw-o-keys", "chanw-k-keys", "chanw-b-key", "chanw-f-keys", "chanw-distinct", "chanw-f-distinct")
	shape := l("chanw-o-shape", "chanw-k-shape", "chanw-b-shape", "chanw-f-shape")
	mk(cur, nil)
	mk(l("chanw-modes", "chanw-modes2"), cur)
	mk(l("chanw-member", "chanw-member2"), cur)
	mk(l("chanw-nicks"), cur)
	mk(l("chanw-nshape"), l("chanw-cur", "chanw-nicks", "chanw-member"))
	mk(l("chanw-nsound"), l("chanw-cur", "chanw-nicks", "chanw-nshape", "chanw-member"))
	mk(l("chanw-ncomplete"), l("chanw-cur", "chanw-nicks", "chanw-nshape", "chanw-member", "chanw-member2"))
	mk(l("chanw-bans"), cur)
	mk(keys, inner)
	mk(shape, cat(inner, keys))
	for _, x := range l("scalars", "msound", "mcomplete", "bans", "members") {
		mk(l("chanw-o-"+x, "chanw-k-"+x, "chanw-b-"+x, "chanw-f-"+x), cat(inner, keys, shape))
	}
	mk(l("chanw-final"), l("chanw-f"))
	// the session table
	scur := l("sess-cur")
	smodes := l("sess-modes", "sess-modes2")
	sshape := l("sess-shape", "sess-k-shape", "sess-b-key", "sess-b-shape", "sess-f-shape")
	skeys := l("sess-keys", "sess-k-keys", "sess-f-keys")
	mk(scur, nil)
	mk(smodes, scur)
	mk(sshape, cat(scur, smodes))
	mk(skeys, cat(scur, sshape))
	for _, x := range l("repr", "msound", "mcomplete") {
		mk(l("sess-"+x, "sess-k-"+x, "sess-b-"+x, "sess-f-"+x), cat(scur, sshape, skeys, smodes))
	}
	mk(l("setw-local"), scur)
	mk(l("setwc-local"), scur)
	mk(l("setw$", "setw-k", "setw-b", "setw-f$"), cat(scur, sshape, skeys, l("setw-local")))
	mk(l("setwc$", "setwc-k", "setwc-b", "setwc-f$"), cat(scur, sshape, skeys, l("setwc-local")))
	// completeness (every session has an entry) never sees the keys family (every entry has a session)
	mk(l("sess-complete", "sess-f-complete", "sess-appended"), cat(scur, sshape))
	mk(l("sess-distinct", "sess-f-distinct"), cat(scur, sshape, skeys))
	mk(l("sess-same", "sess-final", "setw-final", "setwc-final"), l("sess-f", "setw-f$", "setwc-f$"))
	// every assumed group must be proved (not merely assumed) by a unit of this list
	proved := map[string]bool{}
	for _, u := range units {
		for _, g := range u.Opts.Groups {
			proved[g] = true
		}
	}
	for _, u := range units {
		for _, a := range u.Opts.AssumeGroups {
			ok := proved[a] || proved[a+"$"] || proved[strings.TrimSuffix(a, "$")]
			for g := range proved {
				if strings.HasPrefix(g, a+"-") {
					ok = true // a is a prefix group (chanw-f): its members are proved piecewise
				}
			}
			if !ok {
				panic("C03: clause group " + a + " is assumed but proved by no unit")
			}
		}
	}
	return units
}

func init() {
	g := func(groups ...string) vc.UnitOpts { return vc.UnitOpts{Asserts: true, Groups: groups} }
	post := vc.UnitOpts{Post: true, Frame: true}
	p := &Plan{
		ID:       "C03",
		Patterns: []string{"."},
		Assumptions: []string{
			"keys of the membership, invitation, member and hold maps are lowered names (requires only-*-canonical of Marshal: they are only ever inserted as ChanToLower(...)/NickToLower(...)), channel modes below 'A' are never set",
			"proto.Marshal/proto.Unmarshal are inverse on pb.Snapshot up to Go-level representation (nil vs empty): the contracts relate the server state to the pb.Snapshot value on both sides of that dependency through the same predicates (sessRepr, modesRepr, cfgRepr); an empty ban map may come back as nil (handled by the relation)",
			"snapshots are taken between entries: no session is marked deleted (wfAlive), every session has its creation time and last non-ping activity set (requires legacy-created of Marshal: both are set from the entry's timestamp by createSessionLocked), user modes below 'A' are never set (requires modes-letters)",
			"Unmarshal runs on a server fresh from NewIRCServer (requires fresh-server) and on a snapshot written by Marshal (assume@after proto.Unmarshal: the shape facts wfSnapSessions/wfSnapTop/wfSnapNicks, each of which Marshal is proved to establish - wfSnapNicks from the handlers' invariants wfOwner/wfNicks/wfAlive, which hold between entries)",
			"time.Unix(0, t.UnixNano()) == t for every non-zero time of the program (wall clock, years 1678-2262); Duration.String/ParseDuration and hex.EncodeToString/DecodeString are inverse (contracts/deps.spec)",
		},
		NotCovered: []string{
			"'from then on produces the same output for every continuation' is the consequence of state equality plus determinism (C01); it is not a separate obligation",
			"serverSessions of a live server may also hold ids of services links that have ended (it is never pruned); the restored list holds exactly the live ones; they differ only in ids that address no live session",
		},
	}
	p.Prepare = func(e *vc.Engine) error {
		p.Units = []UnitPlan{
			{"ircserver.timestampToTime", post}, {"ircserver.timeToTimestamp", post},
			{"ircserver.IRCServer.Marshal", g("config")}, {"ircserver.IRCServer.Marshal", g("holds")}, {"ircserver.IRCServer.Marshal", g("chanwc")},
			{"ircserver.IRCServer.Marshal", vc.UnitOpts{AssertsOnly: true, Groups: []string{"sessnicks"}, AssumeGroups: []string{"sess-f", "sess-same"}}},
			{"ircserver.IRCServer.Unmarshal", g("sessin", "sessrepr")}, {"ircserver.IRCServer.Unmarshal", g("sessin", "nicks")},
			{"ircserver.IRCServer.Unmarshal", vc.UnitOpts{Asserts: true, Groups: []string{"services$", "services-alloc", "services-new", "services-kept", "services-merged"}, AssumeGroups: []string{"sessin"}}},
			// "every list entry is a services session" never meets "every services session is in the list"
			{"ircserver.IRCServer.Unmarshal", vc.UnitOpts{Asserts: true, Groups: []string{"services-only"}, AssumeGroups: []string{"sessin", "services-alloc", "services-new"}}}, {"ircserver.IRCServer.Unmarshal", g("sessin", "modes")},
			{"ircserver.IRCServer.Unmarshal", g("sessin", "chans")},
			{"ircserver.IRCServer.Unmarshal", g("config")}, {"ircserver.IRCServer.Unmarshal", g("holds")}, {"ircserver.IRCServer.Unmarshal", g("chan", "channicks")},
		}
		// the channel table, writer side: one unit per piece, the other pieces assumed (vc.UnitOpts.AssumeGroups);
		// marshalUnits checks that every assumed group is proved by some unit
		p.Units = append(p.Units, marshalUnits()...)
		return nil
	}
	p.Structural = func(e *vc.Engine) []StructResult {
		lock := "a lock, not state"
		return fieldCoverage(e, []fieldRule{
			{pkg: "ircserver", typ: "Session", param: "s", preds: []string{"sessRepr", "modesRepr"}, excluded: map[string]string{
				"deleted":   "false in every state a snapshot is taken in (wfAlive holds between entries)",
				"Channels":  "chansRepr (reader), setsSound + setsComplete (writer; lemma_sets_halves joins them)",
				"invitedTo": "as Channels",
			}},
			{pkg: "config", typ: "Network", param: "c", preds: []string{"cfgRepr"}, excluded: map[string]string{}},
			{pkg: "ircserver", typ: "svshold", param: "h", preds: []string{"holdRepr"}, excluded: map[string]string{}},
			{pkg: "ircserver", typ: "channel", param: "c", preds: []string{"chanRepr", "chanNicksRepr"}, excluded: map[string]string{}},
			{pkg: "ircserver", typ: "IRCServer", param: "i", preds: []string{"sessEntryOK", "wfNicksLoaded"}, excluded: map[string]string{
				"sessionsMu": lock, "lastProcessedMu": lock, "ConfigMu": lock,
				"serverSessions": "rebuilt on load: group 'services' of Unmarshal", "lastProcessed": "assert config-top of Marshal/Unmarshal",
				"Config": "cfgRepr", "ServerPrefix": "constructor argument (-network_name), not state", "ServerCreation": "constructor argument (node-local start time), not replicated state",
				"channels": "chanRepr, chanNicksRepr (groups chanw/chanwc of Marshal, chan/channicks of Unmarshal)", "svsholds": "holdsRepr (groups 'holds' of Marshal and Unmarshal)",
			}},
		})
	}
	p.ExtraUnits = func(e *vc.Engine) ([]*vc.Unit, error) {
		return lemmaUnits(e, "ircserver", "ircserver.lemma_sessrepr_functional", "ircserver.lemma_cfgrepr_functional", "ircserver.lemma_sets_halves")
	}
	register(p)
}
