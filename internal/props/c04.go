package props

import "verif/internal/vc"

func init() {
	p := &Plan{
		ID:       "C04",
		Patterns: []string{"."},
		Assumptions: []string{
			"a batch handed back by the output stream holds the replies to one input, numbered 1..n in order, and Get(x) returns the batch of input x.Id (assume@after OutputStream.Get / GetNext: that is how ircserver.send builds batches, proved in C12/C01; that the store returns what was added is the unproved part of C08)",
			"one connection, one sender goroutine: the obligations are about the sequence of sends of one call of getMessages; a select is a nondeterministic choice between its cases",
		},
		NotCovered: []string{
			"'no message missing': needs GetNext to return the smallest existing batch after the position, i.e. the ordered-store model that C08 lacks",
			"concatenation over several connections to different nodes, the per-session filter and the supersede logic in handleGetMessages (goroutines, channels, timers), behaviour at the compaction horizon",
		},
	}
	p.Prepare = func(e *vc.Engine) error {
		p.Units = []UnitPlan{
			{"api.outputToRobustMessages", vc.UnitOpts{Post: true, Frame: true}},
			{"api.HTTP.getMessages", vc.UnitOpts{AssertsOnly: true}},
		}
		return nil
	}
	register(p)
}
