package props

import (
	"strings"

	"verif/internal/vc"
)

var ircHelpers = []string{
	"ircserver.IRCServer.send", "ircserver.IRCServer.sendUser", "ircserver.IRCServer.sendChannel",
	"ircserver.IRCServer.sendChannelButOne", "ircserver.IRCServer.sendCommonChannels", "ircserver.IRCServer.sendAllUsers",
	"ircserver.IRCServer.sendServices", "ircserver.IRCServer.deleteSessionLocked", "ircserver.IRCServer.maybeDeleteChannelLocked",
	"ircserver.IRCServer.MaybeDeleteSession", "ircserver.IRCServer.UpdateLastClientMessageID", "ircserver.IRCServer.createSessionLocked",
	"ircserver.IRCServer.CreateSession", "ircserver.IRCServer.getSessionLocked", "ircserver.IRCServer.GetSession",
	"ircserver.IRCServer.SetLastProcessed",
}

func init() {
	var regs []vc.Registration
	p := &Plan{
		ID:       "C06",
		Patterns: []string{"."},
		Assumptions: []string{
			"lines from an authenticated services link are protocol-conforming: the shapes assumed are the requires clauses labelled conforming* of the server_ handlers",
			"single writer: entries are applied one after another (raft FSM)",
		},
	}
	p.Prepare = func(e *vc.Engine) error {
		var err error
		regs, err = prepareIRC(e)
		if err != nil {
			return err
		}
		opts := vc.UnitOpts{NoPanic: true, Post: true, Frame: true}
		p.Units = nil
		p.Units = append(p.Units, UnitPlan{"ircserver.IRCServer.ProcessMessage", opts})
		for _, h := range handlerNames(regs) {
			p.Units = append(p.Units, UnitPlan{h, opts})
		}
		p.Units = append(p.Units, UnitPlan{"main.FSM.applyRobustMessage", opts}, UnitPlan{"main.sendMessages", opts}, UnitPlan{"ircserver.IRCServer.maybeLogin", opts},
			UnitPlan{"ircserver.init", opts}, UnitPlan{"ircserver.extractPassword", opts}, UnitPlan{"ircserver.IRCServer.generateCaptchaURL", opts}, UnitPlan{"ircserver.IRCServer.verifyCaptcha", opts},
			UnitPlan{"ircserver.ban", opts}, UnitPlan{"ircserver.banBoth", opts}, UnitPlan{"ircserver.normalizeModes", opts}, UnitPlan{"ircserver.modeCmds.IRCParams", opts},
			UnitPlan{"ircserver.IRCServer.resolveSessionToRemoteAddrLocked", opts}, UnitPlan{"ircserver.NickToLower", opts}, UnitPlan{"ircserver.ChanToLower", opts})
		for _, h := range ircHelpers {
			p.Units = append(p.Units, UnitPlan{h, vc.UnitOpts{NoPanic: true, Post: true, Frame: true}})
		}
		// every function with a contract of its own that the units above can reach is verified
		// modularly at its call sites, so its body has to be swept as a unit as well
		have := map[string]bool{}
		var roots []string
		for _, up := range p.Units {
			have[up.Func] = true
			roots = append(roots, up.Func)
		}
		for _, n := range contractClosure(e, roots) {
			if !have[n] && (strings.HasPrefix(n, "ircserver.") || strings.HasPrefix(n, "main.")) {
				p.Units = append(p.Units, UnitPlan{n, opts})
				have[n] = true
			}
		}
		return nil
	}
	p.Structural = func(e *vc.Engine) []StructResult { return gateLemma(e, regs) }
	p.ExtraUnits = func(e *vc.Engine) ([]*vc.Unit, error) { return gateLemmaUnits(e, regs) }
	register(p)
}
