package props

import "verif/internal/vc"

func init() {
	asserts := vc.UnitOpts{AssertsOnly: true}
	p := &Plan{
		ID:       "C07",
		Patterns: []string{"."},
		Assumptions: []string{
			"glog.Fatalf terminates the process and nothing runs after it; recover() returns the panic value of the apply that is unwinding (runtime semantics, not interpreted)",
			"the raft log store keeps what StoreLogProto wrote (C09 / LevelDB); proto.Marshal encodes the message it is given (C18)",
			"FSM.applyRobustMessage is used under its contract in FSM.Snapshot (its body is proved against the contract in this plan and in C06)",
		},
		NotCovered: []string{
			"that a panic in ProcessMessage really reaches the deferred handler and that the process exits (control flow of panics and os.Exit is outside the generator); the restart itself; interplay with hashicorp/raft's own replay",
			"'all other entries keep their effect' is the determinism/replay argument of C01/C02, not an obligation here",
		},
	}
	p.Prepare = func(e *vc.Engine) error {
		if _, err := prepareIRC(e); err != nil {
			return err
		}
		p.Units = []UnitPlan{
			{"main.FSM.applyProto$1", asserts},
			{"main.FSM.Snapshot", vc.UnitOpts{AssertsOnly: true, Groups: []string{"mod"}}},
			{"main.FSM.applyRobustMessage", vc.UnitOpts{Post: true, PostOnly: []string{"mod-marked", "mod-frame"}}},
			{"ircserver.IRCServer.UpdateLastClientMessageID", vc.UnitOpts{Post: true, Frame: true}},
		}
		return nil
	}
	register(p)
}
