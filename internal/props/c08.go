package props

import "verif/internal/vc"

func init() {
	full := vc.UnitOpts{NoPanic: true, Post: true, Frame: true}
	p := &Plan{
		ID:       "C08",
		Patterns: []string{"."},
		Assumptions: []string{
			"interference: between two lock acquisitions other goroutines may add and delete batches; this is covered because the contracts leave every database lookup (getUnlocked on a cache miss, iterator First/Last/Prev) free to find or miss any batch - only the shape of stored batches is fixed: at least one message each (Add and reset never store an empty batch; assume@after unmarshalMessageBatch)",
			"no LevelDB I/O error (assume@after DB.Get / DB.Write); the database is never empty and the sentinel batch 0 is never deleted (assume@after Iterator.Last / Prev, where the code itself panics otherwise)",
			"the cache map is only accessed under cacheMu, lastseen only under messagesMu (lock discipline is C20, not checked here)",
			"messageBatch.marshal is trusted not to panic (its buffer size computation is not verified)",
		},
		NotCovered: []string{
			"which batch GetNext returns (smallest id greater than x) and Get returning exactly what was added need a model of the ordered key-value store, which the contracts lack: covered only by a labelled BOUNDED stand-in for sequential programs (bounded_standins; not a proof, not counted)",
			"blocking, wake-up timing, cancellation and every interleaving of concurrent readers and writers (scheduling/liveness reasoning is outside sequential function contracts)",
		},
	}
	p.Prepare = func(e *vc.Engine) error {
		p.Units = []UnitPlan{
			{"outputstream.NewOutputStream", vc.UnitOpts{Post: true}}, {"outputstream.OutputStream.reset", vc.UnitOpts{NoPanic: true, Post: true}},
			{"outputstream.OutputStream.getUnlocked", full}, {"outputstream.OutputStream.Get", full}, {"outputstream.OutputStream.GetNext", vc.UnitOpts{NoPanic: true, Post: true}},
			{"outputstream.OutputStream.Add", full}, {"outputstream.OutputStream.Delete", vc.UnitOpts{NoPanic: true, Post: true}}, {"outputstream.OutputStream.LastSeen", full},
			{"main.sendMessages", full},
		}
		return nil
	}
	p.BoundedRun = streamBounded
	register(p)
}
