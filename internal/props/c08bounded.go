package props

import (
	"fmt"
	"os"
	"os/exec"
	"path/filepath"
	"strings"
)

// Which batch GetNext/Get return needs a model of the ordered store, which the contracts lack. Labelled
// bounded stand-in: every sequential program within the bound is run on the real output stream and
// compared with a sorted-map model after every step (only lookups that do not block are made: GetNext(x)
// is called when the model has a batch after x).
const streamBound = "all sequential programs of up to %d operations (quick tier: 5, thorough tier: 7) from {Add(next id, 1 message), Add(next id, 2 messages), Delete(oldest batch), Delete(newest batch), Delete(second oldest batch), Delete(an id that does not exist, just below / just above the newest)}, never deleting the sentinel 0 or the only remaining batch; after every step Get(x) for x in 0..newest+1 and GetNext(x) for every x that has a successor are compared with a sorted-map model, LastSeen with the newest batch"

const streamTest = `package outputstream

import (
	"context"
	"os"
	"sort"
	"testing"

	"github.com/robustirc/robustirc/internal/robust"
)

const maxDepth = MAXDEPTH

func TestBoundedStreamPrograms(t *testing.T) {
	type model struct {
		batches map[uint64][]Message
		next    uint64
	}
	ids := func(m *model) []uint64 {
		var out []uint64
		for k := range m.batches {
			out = append(out, k)
		}
		sort.Slice(out, func(a, b int) bool { return out[a] < out[b] })
		return out
	}
	mk := func(id uint64, n int) []Message {
		var ms []Message
		for k := 1; k <= n; k++ {
			ms = append(ms, Message{Id: robust.Id{Id: id, Reply: uint64(k)}, Data: "d", InterestingFor: map[uint64]bool{id: true}})
		}
		return ms
	}
	type op struct {
		name string
		ok   func(m *model) bool
		run  func(o *OutputStream, m *model) error
	}
	del := func(pick func(existing []uint64) (uint64, bool)) func(o *OutputStream, m *model) error {
		return func(o *OutputStream, m *model) error {
			id, _ := pick(ids(m))
			delete(m.batches, id)
			return o.Delete(robust.Id{Id: id})
		}
	}
	oldest := func(e []uint64) (uint64, bool) { // e[0] is the sentinel 0
		if len(e) < 3 {
			return 0, false
		}
		return e[1], true
	}
	newest := func(e []uint64) (uint64, bool) {
		if len(e) < 3 {
			return 0, false
		}
		return e[len(e)-1], true
	}
	second := func(e []uint64) (uint64, bool) {
		if len(e) < 4 {
			return 0, false
		}
		return e[2], true
	}
	ops := []op{
		{"Add1", func(m *model) bool { return true }, func(o *OutputStream, m *model) error {
			id := m.next
			m.next += 2
			m.batches[id] = mk(id, 1)
			return o.Add(mk(id, 1))
		}},
		{"Add2", func(m *model) bool { return true }, func(o *OutputStream, m *model) error {
			id := m.next
			m.next += 2
			m.batches[id] = mk(id, 2)
			return o.Add(mk(id, 2))
		}},
		{"DeleteOldest", func(m *model) bool { _, ok := oldest(ids(m)); return ok }, del(oldest)},
		{"DeleteNewest", func(m *model) bool { _, ok := newest(ids(m)); return ok }, del(newest)},
		{"DeleteSecond", func(m *model) bool { _, ok := second(ids(m)); return ok }, del(second)},
		{"DeleteMissing", func(m *model) bool { return len(m.batches) >= 2 }, func(o *OutputStream, m *model) error {
			e := ids(m)
			return o.Delete(robust.Id{Id: e[len(e)-1] - 1}) // ids are even, so newest-1 never exists
		}},
		{"DeleteBeyond", func(m *model) bool { return len(m.batches) >= 2 }, func(o *OutputStream, m *model) error {
			e := ids(m)
			return o.Delete(robust.Id{Id: e[len(e)-1] + 1}) // larger than the newest batch, does not exist
		}},
	}
	same := func(a, b []Message) bool {
		if len(a) != len(b) {
			return false
		}
		for k := range a {
			if a[k].Id != b[k].Id || a[k].Data != b[k].Data || len(a[k].InterestingFor) != len(b[k].InterestingFor) {
				return false
			}
		}
		return true
	}
	compare := func(o *OutputStream, m *model, trace string) {
		e := ids(m)
		newestID := e[len(e)-1]
		if got := o.LastSeen(); got.Id != newestID {
			t.Fatalf("CONTRACT VIOLATED after %s: LastSeen = %v, newest batch is %d", trace, got, newestID)
		}
		for x := uint64(0); x <= newestID+1; x++ {
			got, ok := o.Get(robust.Id{Id: x})
			want, wok := m.batches[x]
			if x == 0 {
				wok = true // the sentinel exists; its content is not compared
				want = got
			}
			if ok != wok || (ok && !same(got, want)) {
				t.Fatalf("CONTRACT VIOLATED after %s: Get(%d) = %v, %v; model has %v, %v", trace, x, got, ok, want, wok)
			}
			// the batch after x, if the model has one
			var succ uint64
			found := false
			for _, id := range e {
				if id > x {
					succ, found = id, true
					break
				}
			}
			if found {
				got := o.GetNext(context.Background(), robust.Id{Id: x})
				if !same(got, m.batches[succ]) {
					t.Fatalf("CONTRACT VIOLATED after %s: GetNext(%d) = %v, want batch %d", trace, x, got, succ)
				}
			}
		}
	}
	n := 0
	var rec func(trace []int)
	rec = func(trace []int) {
		if len(trace) > 0 {
			dir, err := os.MkdirTemp("", "bounded-stream-")
			if err != nil {
				t.Fatal(err)
			}
			o, err := NewOutputStream(dir)
			if err != nil {
				t.Fatal(err)
			}
			m := &model{batches: map[uint64][]Message{0: nil}, next: 2}
			name := ""
			valid := true
			for _, k := range trace {
				if !ops[k].ok(m) {
					valid = false
					break
				}
				name += ops[k].name + "; "
				if err := ops[k].run(o, m); err != nil {
					t.Fatalf("CONTRACT VIOLATED: %s returned %v", name, err)
				}
				compare(o, m, name)
			}
			o.Close()
			os.RemoveAll(dir)
			if !valid {
				return
			}
			n++
		}
		if len(trace) == maxDepth {
			return
		}
		for k := range ops {
			rec(append(append([]int{}, trace...), k))
		}
	}
	rec(nil)
	t.Logf("BOUNDED-CASES %d", n)
}
`

func streamBounded(outDir, tier string) []BoundedResult {
	depth := 5
	if tier == "thorough" {
		depth = 7
	}
	dir := filepath.Join(outDir, "bounded")
	os.MkdirAll(dir, 0o755)
	tf := filepath.Join(dir, "zz_bounded_stream_test.go")
	os.WriteFile(tf, []byte(strings.Replace(streamTest, "MAXDEPTH", fmt.Sprint(depth), 1)), 0o644)
	ov := filepath.Join(dir, "stream.overlay.json")
	os.WriteFile(ov, []byte(fmt.Sprintf(`{"Replace": {%q: %q}}`, "/repo/internal/outputstream/zz_bounded_stream_test.go", tf)), 0o644)
	cmd := exec.Command("bash", "-c", fmt.Sprintf("cd /repo && go test -overlay %s -vet=off -count=1 -timeout 1800s -v -run '^TestBoundedStreamPrograms$' ./internal/outputstream 2>&1", ov))
	cmd.Env = append(os.Environ(), "GOFLAGS=-mod=mod", "GOPROXY=off", "GOSUMDB=off", "GOTOOLCHAIN=local")
	out, _ := cmd.CombinedOutput()
	os.WriteFile(tf+".out", out, 0o644)
	s := string(out)
	r := BoundedResult{Name: "outputstream.OutputStream/bounded/sequential-programs-vs-sorted-map", Bound: fmt.Sprintf(streamBound, depth), Replay: tf}
	if i := strings.Index(s, "BOUNDED-CASES "); i >= 0 {
		r.Cases = strings.Fields(s[i+len("BOUNDED-CASES "):])[0]
	}
	r.OK = strings.Contains(s, "ok  ") && !strings.Contains(s, "CONTRACT VIOLATED") && !strings.Contains(s, "panic:") && r.Cases != ""
	if !r.OK {
		d := s
		if len(d) > 1500 {
			d = d[len(d)-1500:]
		}
		r.Detail = d
	} else {
		r.Detail = "the stream agrees with the sorted-map model after every step of all " + r.Cases + " programs within the bound"
	}
	return []BoundedResult{r}
}
