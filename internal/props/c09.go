package props

import "verif/internal/vc"

func init() {
	asserts := vc.UnitOpts{AssertsOnly: true}
	p := &Plan{
		ID:       "C09",
		Patterns: []string{"."},
		Assumptions: []string{
			"goleveldb keeps what it is given: Get returns the last value Put/Write stored under exactly that key, iterators yield the keys of their range in byte order, a database survives close and reopen (dependency, not interpreted); a successful leveldb.DB.Write is counted in the database's sequence number",
			"binary.BigEndian.PutUint64/Uint64 are inverse on 8 bytes and order-preserving (keys sort like indexes)",
			"proto.Marshal/Unmarshal and the JSON codec are inverse on the entry types (C18)",
		},
		NotCovered: []string{
			"FirstIndex/LastIndex (iteration that skips the stablestore- keys), the value returned for an empty log, and every statement about sequences of operations, close/reopen and kill/reopen: they need a model of the ordered key-value store and of iterator positions, which the contracts of this generator do not have. A labelled BOUNDED stand-in (bounded_standins) runs every operation sequence within the bound on a real LevelDB and compares with a map after every step; it is not a proof and not counted",
			"kill (as opposed to close) before reopen, the JSON encoding and the JSON-to-protobuf migration as whole-database operations",
			"ConvertToProto as a whole-database migration (its per-entry encoding is covered: C18 obligations encoded / same-entry)",
		},
	}
	p.Prepare = func(e *vc.Engine) error {
		p.Units = []UnitPlan{
			{"raftstore.LevelDBStore.DeleteRange", vc.UnitOpts{Post: true, Asserts: true}},
			{"raftstore.LevelDBStore.GetLog", asserts}, {"raftstore.LevelDBStore.StoreLogs", asserts}, {"raftstore.LevelDBStore.StoreLogProto", asserts},
			{"raftstore.LevelDBStore.ConvertToProto", asserts},
			{"raftstore.LevelDBStore.Set", asserts}, {"raftstore.LevelDBStore.SetUint64", asserts}, {"raftstore.LevelDBStore.Get", asserts}, {"raftstore.LevelDBStore.GetUint64", asserts},
			{"raftlog.FromBytes", vc.UnitOpts{Post: true, Asserts: true}},
		}
		return nil
	}
	p.BoundedRun = storeBounded
	register(p)
}
