package props

import (
	"fmt"
	"os"
	"os/exec"
	"path/filepath"
	"strings"
)

// FirstIndex/LastIndex and everything about sequences of operations (including close and reopen) need a
// model of the ordered key-value store that the contracts do not have. Labelled bounded stand-in: every
// sequence of operations within the bound is run on the real store (a real LevelDB in a temporary
// directory) and compared, after every step, with a plain in-memory map.
const storeBound = "all sequences of up to %d operations (quick tier: 3, thorough tier: 4) from {StoreLog(i) for i in 1,2,3,2^64-1; DeleteRange(a,b) for (a,b) in (1,1),(1,2),(2,3),(1,2^64-1),(3,2); Set/SetUint64 on keys \"a\" and the 8-byte key of index 1; close+reopen}, protobuf encoding; after every step FirstIndex, LastIndex, GetLog(1..3, 2^64-1), Get(\"a\"), GetUint64(key of index 1) are compared with an in-memory model"

const storeTest = `package raftstore

import (
	"bytes"
	"encoding/binary"
	"fmt"
	"math"
	"os"
	"testing"
	"time"

	"github.com/hashicorp/raft"
)

type bmodel struct {
	logs   map[uint64]raft.Log
	stable map[string][]byte
	u64    map[string]uint64
}

const maxDepth = MAXDEPTH

func TestBoundedStoreSequences(t *testing.T) {
	idx := []uint64{1, 2, 3, math.MaxUint64}
	ranges := [][2]uint64{{1, 1}, {1, 2}, {2, 3}, {1, math.MaxUint64}, {3, 2}}
	key1 := make([]byte, 8)
	binary.BigEndian.PutUint64(key1, 1)
	type op struct {
		name string
		run  func(s **LevelDBStore, m *bmodel, dir string) error
	}
	var ops []op
	for _, i := range idx {
		i := i
		ops = append(ops, op{fmt.Sprintf("StoreLog(%d)", i), func(s **LevelDBStore, m *bmodel, dir string) error {
			l := raft.Log{Index: i, Term: i%7 + 1, Type: raft.LogCommand, Data: []byte(fmt.Sprintf("p-data-%d", i)), Extensions: []byte{byte(i)}, AppendedAt: time.Unix(1600000000+int64(i%1000), 0).UTC()}
			m.logs[i] = l
			return (*s).StoreLog(&l)
		}})
	}
	for _, r := range ranges {
		r := r
		ops = append(ops, op{fmt.Sprintf("DeleteRange(%d,%d)", r[0], r[1]), func(s **LevelDBStore, m *bmodel, dir string) error {
			for k := range m.logs {
				if k >= r[0] && k <= r[1] {
					delete(m.logs, k)
				}
			}
			return (*s).DeleteRange(r[0], r[1])
		}})
	}
	ops = append(ops, op{"Set(a)", func(s **LevelDBStore, m *bmodel, dir string) error { m.stable["a"] = []byte("v"); return (*s).Set([]byte("a"), []byte("v")) }})
	ops = append(ops, op{"Set(key1)", func(s **LevelDBStore, m *bmodel, dir string) error {
		m.stable[string(key1)] = []byte("w")
		return (*s).Set(key1, []byte("w"))
	}})
	ops = append(ops, op{"SetUint64(key1)", func(s **LevelDBStore, m *bmodel, dir string) error {
		m.u64[string(key1)] = 42
		return (*s).SetUint64(key1, 42)
	}})
	ops = append(ops, op{"reopen", func(s **LevelDBStore, m *bmodel, dir string) error {
		if err := (*s).Close(); err != nil {
			return err
		}
		ns, err := NewLevelDBStore(dir, false, true)
		if err != nil {
			return err
		}
		*s = ns
		return nil
	}})
	compare := func(s *LevelDBStore, m *bmodel, trace string) {
		var first, last uint64
		for k := range m.logs {
			if first == 0 || k < first {
				first = k
			}
			if k > last {
				last = k
			}
		}
		if got, err := s.FirstIndex(); err != nil || got != first {
			t.Fatalf("CONTRACT VIOLATED after %s: FirstIndex = %d, %v; want %d", trace, got, err, first)
		}
		if got, err := s.LastIndex(); err != nil || got != last {
			t.Fatalf("CONTRACT VIOLATED after %s: LastIndex = %d, %v; want %d", trace, got, err, last)
		}
		for _, i := range idx {
			var l raft.Log
			err := s.GetLog(i, &l)
			want, ok := m.logs[i]
			if !ok {
				if err != raft.ErrLogNotFound {
					t.Fatalf("CONTRACT VIOLATED after %s: GetLog(%d) = %v, want raft.ErrLogNotFound", trace, i, err)
				}
				continue
			}
			if err != nil || l.Index != want.Index || l.Term != want.Term || l.Type != want.Type || !bytes.Equal(l.Data, want.Data) || !bytes.Equal(l.Extensions, want.Extensions) || !l.AppendedAt.Equal(want.AppendedAt) {
				t.Fatalf("CONTRACT VIOLATED after %s: GetLog(%d) = %+v, %v; want %+v", trace, i, l, err, want)
			}
		}
		for _, k := range []string{"a", string(key1)} {
			got, err := s.Get([]byte(k))
			if err != nil || !bytes.Equal(got, m.stable[k]) {
				if !(m.u64[k] != 0 && m.stable[k] == nil) { // SetUint64 and Set share the key space of the stable store
					t.Fatalf("CONTRACT VIOLATED after %s: Get(%q) = %q, %v; want %q", trace, k, got, err, m.stable[k])
				}
			}
		}
	}
	n := 0
	var rec func(depth int, trace []int)
	rec = func(depth int, trace []int) {
		if depth > 0 {
			// replay the trace on a fresh store
			dir, err := os.MkdirTemp("", "bounded-store-")
			if err != nil {
				t.Fatal(err)
			}
			s, err := NewLevelDBStore(dir, false, true)
			if err != nil {
				t.Fatal(err)
			}
			m := &bmodel{logs: map[uint64]raft.Log{}, stable: map[string][]byte{}, u64: map[string]uint64{}}
			name := ""
			skip := false
			for _, k := range trace {
				name += ops[k].name + "; "
				if ops[k].name == "Set(key1)" || ops[k].name == "SetUint64(key1)" {
					// the two writers of one stable key overwrite each other: keep the model simple by not mixing them
					for _, j := range trace {
						if ops[j].name != ops[k].name && (ops[j].name == "Set(key1)" || ops[j].name == "SetUint64(key1)") {
							skip = true
						}
					}
				}
				if skip {
					break
				}
				if err := ops[k].run(&s, m, dir); err != nil {
					t.Fatalf("CONTRACT VIOLATED: %s returned %v", name, err)
				}
				compare(s, m, name)
			}
			if !skip {
				if want := m.u64[string(key1)]; want != 0 {
					if got, err := s.GetUint64(key1); err != nil || got != want {
						t.Fatalf("CONTRACT VIOLATED after %s: GetUint64 = %d, %v", name, got, err)
					}
				}
				n++
			}
			s.Close()
			os.RemoveAll(dir)
		}
		if depth == maxDepth {
			return
		}
		for k := range ops {
			rec(depth+1, append(append([]int{}, trace...), k))
		}
	}
	rec(0, nil)
	t.Logf("BOUNDED-CASES %d", n)
}
`

func storeBounded(outDir, tier string) []BoundedResult {
	depth := 3
	if tier == "thorough" {
		depth = 4
	}
	dir := filepath.Join(outDir, "bounded")
	os.MkdirAll(dir, 0o755)
	tf := filepath.Join(dir, "zz_bounded_store_test.go")
	os.WriteFile(tf, []byte(strings.Replace(storeTest, "MAXDEPTH", fmt.Sprint(depth), 1)), 0o644)
	ov := filepath.Join(dir, "store.overlay.json")
	os.WriteFile(ov, []byte(fmt.Sprintf(`{"Replace": {%q: %q}}`, "/repo/internal/raftstore/zz_bounded_store_test.go", tf)), 0o644)
	cmd := exec.Command("bash", "-c", fmt.Sprintf("cd /repo && go test -overlay %s -vet=off -count=1 -timeout 1200s -v -run '^TestBoundedStoreSequences$' ./internal/raftstore 2>&1 | grep -v 'converting database\\|database conversion\\|database already' ", ov))
	cmd.Env = append(os.Environ(), "GOFLAGS=-mod=mod", "GOPROXY=off", "GOSUMDB=off", "GOTOOLCHAIN=local")
	out, _ := cmd.CombinedOutput()
	os.WriteFile(tf+".out", out, 0o644)
	s := string(out)
	r := BoundedResult{Name: "raftstore.LevelDBStore/bounded/sequences-vs-map", Bound: fmt.Sprintf(storeBound, depth), Replay: tf}
	if i := strings.Index(s, "BOUNDED-CASES "); i >= 0 {
		r.Cases = strings.Fields(s[i+len("BOUNDED-CASES "):])[0]
	}
	r.OK = strings.Contains(s, "ok  ") && !strings.Contains(s, "CONTRACT VIOLATED") && !strings.Contains(s, "panic:") && r.Cases != ""
	if !r.OK {
		d := s
		if len(d) > 1500 {
			d = d[len(d)-1500:]
		}
		r.Detail = d
	} else {
		r.Detail = "the store agrees with the map model after every step of all " + r.Cases + " sequences within the bound"
	}
	return []BoundedResult{r}
}
