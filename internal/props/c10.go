package props

import "verif/internal/vc"

func init() {
	post := vc.UnitOpts{Post: true, Frame: true}
	asserts := vc.UnitOpts{AssertsOnly: true}
	p := &Plan{
		ID:       "C10",
		Patterns: []string{"."},
		Assumptions: []string{
			"raft.Apply is the only way into the log; the retry arrives after the first copy was applied on the handling node (the statement's own restriction)",
			"handlePostMessage reads the marker and proposes without an intervening apply of the same session (sequential contract of one handler run)",
		},
		NotCovered: []string{
			"that the marker survives snapshot and restore is the field obligation Session.lastClientMessageId of C03 and the replay obligations of C02 (not part of this check)",
		},
	}
	p.Prepare = func(e *vc.Engine) error {
		if _, err := prepareIRC(e); err != nil {
			return err
		}
		p.Units = []UnitPlan{
			{"ircserver.IRCServer.UpdateLastClientMessageID", post}, {"ircserver.IRCServer.LastPostMessage", post},
			{"ircserver.IRCServer.getSessionLocked", post}, {"main.FSM.applyRobustMessage", post},
			{"api.HTTP.handlePostMessage", asserts}, {"api.HTTP.ircServer", post},
		}
		return nil
	}
	register(p)
}
