package props

import (
	"fmt"
	"sort"
	"strings"

	"golang.org/x/tools/go/ssa"
	"verif/internal/vc"
)

func init() {
	post := vc.UnitOpts{Post: true, Frame: true}
	asserts := vc.UnitOpts{AssertsOnly: true}
	p := &Plan{
		ID:       "C11",
		Patterns: []string{"./internal/api"},
		Assumptions: []string{
			"net/http accessors (Header.Get, BasicAuth) return what the client sent",
			"the routing in main() (/robustirc/v1/ -> DispatchPublic, / -> DispatchPrivate) is not under contract",
			"constant-time comparison is not part of the property",
		},
		NotCovered: []string{
			"handleGetMessages is checked against its assert@ clauses only (goroutines/channels are outside the subset)",
		},
		Units: []UnitPlan{
			{"api.HTTP.ircServer", post}, {"api.HTTP.session", post}, {"ircserver.IRCServer.GetAuth", post}, {"ircserver.IRCServer.GetSession", post}, {"ircserver.IRCServer.getSessionLocked", post},
			{"api.HTTP.sessionOrProxy", vc.UnitOpts{Post: true}}, {"api.HTTP.DispatchPublic", vc.UnitOpts{Post: true}},
			{"api.HTTP.handleGetMessages", asserts}, {"api.HTTP.handlePostMessage", asserts}, {"api.HTTP.handleDeleteSession", asserts},
			{"api.HTTP.DispatchPrivate", asserts},
		},
	}
	p.Structural = routeChecks
	register(p)
}

// routeChecks: every handle* method of *api.HTTP is called from exactly the dispatcher it belongs to;
// the session handlers are only reached from DispatchPublic, everything else only from
// DispatchPrivateWithoutAuth, which in turn is only called from DispatchPrivate.
func routeChecks(e *vc.Engine) []StructResult {
	public := map[string]bool{"handleCreateSession": true, "handlePostMessage": true, "handleGetMessages": true, "handleDeleteSession": true}
	callers := map[string]map[string]bool{}
	var apiPkg *ssa.Package
	for _, p := range e.Prog.AllPackages() {
		if p.Pkg.Path() == vc.RepoModule+"/internal/api" {
			apiPkg = p
		}
	}
	var out []StructResult
	if apiPkg == nil {
		return []StructResult{{Name: "api/routes/package", OK: false, Detail: "package internal/api not loaded"}}
	}
	for fn := range allFuncs(e.Prog) {
		if !strings.HasPrefix(fnPkgPath(fn), vc.RepoModule) {
			continue
		}
		for _, b := range fn.Blocks {
			for _, ins := range b.Instrs {
				var cc *ssa.CallCommon
				switch c := ins.(type) {
				case *ssa.Call:
					cc = &c.Call
				case *ssa.Defer:
					cc = &c.Call
				case *ssa.Go:
					cc = &c.Call
				}
				var callee *ssa.Function
				if cc != nil {
					callee = cc.StaticCallee()
				}
				// function values (method values passed around) count as callers too
				for _, op := range ins.Operands(nil) {
					if f2, ok := (*op).(*ssa.Function); ok && callee != f2 {
						addCaller(callers, f2, fn)
					}
					if mc, ok := (*op).(*ssa.MakeClosure); ok {
						if f2, ok := mc.Fn.(*ssa.Function); ok {
							addCaller(callers, f2, fn)
						}
					}
				}
				if callee != nil {
					addCaller(callers, callee, fn)
				}
			}
		}
	}
	var names []string
	for n := range callers {
		names = append(names, n)
	}
	sort.Strings(names)
	for _, n := range names {
		if (!strings.HasPrefix(n, "api.HTTP.handle") && n != "api.HTTP.DispatchPrivateWithoutAuth") || strings.Contains(n, "$") {
			continue
		}
		var cs []string
		for c := range callers[n] {
			cs = append(cs, c)
		}
		sort.Strings(cs)
		short := strings.TrimPrefix(n, "api.HTTP.")
		want := "api.HTTP.DispatchPrivateWithoutAuth"
		if public[short] {
			want = "api.HTTP.DispatchPublic"
		}
		if short == "DispatchPrivateWithoutAuth" {
			want = "api.HTTP.DispatchPrivate"
		}
		ok := len(cs) == 1 && cs[0] == want
		out = append(out, StructResult{Name: fmt.Sprintf("api.routes/%s only reachable from %s", short, strings.TrimPrefix(want, "api.HTTP.")), OK: ok,
			Detail: fmt.Sprintf("%s is referenced from %v; expected only %s", n, cs, want)})
	}
	if len(out) < 10 {
		out = append(out, StructResult{Name: "api.routes/enumeration", OK: false, Detail: fmt.Sprintf("only %d handlers found", len(out))})
	}
	return out
}

func addCaller(m map[string]map[string]bool, callee, caller *ssa.Function) {
	n := vc.ShortName(callee)
	if n == "" {
		return
	}
	// wrappers (bound method closures) stand for their target
	n = strings.TrimSuffix(strings.TrimSuffix(n, "$bound"), "$thunk")
	if m[n] == nil {
		m[n] = map[string]bool{}
	}
	c := caller
	for c.Parent() != nil {
		c = c.Parent()
	}
	m[n][vc.ShortName(c)] = true
}
