package props

import "verif/internal/vc"

func init() {
	var regs []vc.Registration
	p := &Plan{
		ID:       "C12",
		Patterns: []string{"."},
		Assumptions: []string{
			"a Replyctx is fresh per entry (created by ProcessMessage)",
			"services links are exempt, as in the statement (sendServices adds the ids in i.serverSessions)",
			"the conforming* clauses for services input",
		},
		NotCovered: []string{
			"the session-derived host part of the prefix (fmt.Sprintf is not interpreted): the identity obligations cover nickname and user name and that relayed lines use the acting session's own prefix object",
			"for JOIN/PART/KICK/TOPIC/MODE/NICK/QUIT/KILL the statement gives an upper bound on the recipients: proved as 'the helper that is called has exactly the members of the affected channel / the co-members of the subject as recipients, and is called on that channel / subject'",
			"handleGetMessages is checked against its assert@ clauses only",
		},
	}
	p.Prepare = func(e *vc.Engine) error {
		var err error
		regs, err = prepareIRC(e)
		if err != nil {
			return err
		}
		opts := vc.UnitOpts{Post: true, Frame: true}
		p.Units = []UnitPlan{{"ircserver.IRCServer.ProcessMessage", opts}, {"ircserver.IRCServer.maybeLogin", opts}, {"ircserver.Session.updateIrcPrefix", opts},
			{"ircserver.NewIRCServer", opts}, {"main.FSM.applyRobustMessage", opts}, {"api.HTTP.handleGetMessages", vc.UnitOpts{AssertsOnly: true}}}
		for _, h := range handlerNames(regs) {
			p.Units = append(p.Units, UnitPlan{h, opts})
		}
		for _, h := range []string{"ircserver.IRCServer.send", "ircserver.IRCServer.sendUser", "ircserver.IRCServer.sendChannel", "ircserver.IRCServer.sendChannelButOne",
			"ircserver.IRCServer.sendCommonChannels", "ircserver.IRCServer.sendAllUsers", "ircserver.IRCServer.sendServices",
			"ircserver.IRCServer.createSessionLocked", "ircserver.IRCServer.CreateSession", "ircserver.IRCServer.deleteSessionLocked"} {
			p.Units = append(p.Units, UnitPlan{h, opts})
		}
		return nil
	}
	p.ExtraUnits = func(e *vc.Engine) ([]*vc.Unit, error) { return gateLemmaUnits(e, regs) }
	register(p)
}
