package props

import "verif/internal/vc"

func init() {
	var regs []vc.Registration
	p := &Plan{
		ID:       "C13",
		Patterns: []string{"."},
		Assumptions: []string{
			"regexp matching is the meaning of 'a ban matches'; HMAC is unforgeable (crypto is out of scope); the 1-minute captcha grace period is part of the check as the code defines it",
			"the privilege for MODE is evaluated once when the command starts (isChanOp), as the code does",
		},
		NotCovered: []string{
			"the +b clause of JOIN (banned() is not interpreted) — see DESIGN.md: on a +x channel a valid captcha skips the +b test",
			"the signature and 'okay:' purpose checks of captcha tokens (hmac/base64 are not interpreted); only the five-minute freshness is proved",
			"channel-operator changes through c.nicks[...][chanop] = v are covered through the isChanOp guard of the enclosing branch only for the stores reachable as c.modes[], c.key and banBoth",
		},
	}
	p.Prepare = func(e *vc.Engine) error {
		var err error
		regs, err = prepareIRC(e)
		if err != nil {
			return err
		}
		opts := vc.UnitOpts{Post: true}
		p.Units = []UnitPlan{{"ircserver.IRCServer.ProcessMessage", opts}, {"ircserver.init$1", vc.UnitOpts{Post: true, Frame: true}},
			{"ircserver.IRCServer.verifyCaptchaNonEmpty", vc.UnitOpts{Post: true, Frame: true}}}
		for _, h := range handlerNames(regs) {
			p.Units = append(p.Units, UnitPlan{h, opts})
		}
		return nil
	}
	p.ExtraUnits = func(e *vc.Engine) ([]*vc.Unit, error) { return gateLemmaUnits(e, regs) }
	register(p)
}
