package props

import "verif/internal/vc"

func init() {
	var regs []vc.Registration
	p := &Plan{
		ID:       "C14",
		Patterns: []string{"."},
		Assumptions: []string{
			"services SVSNICK only onto free nicknames and the other protocol shapes labelled conforming* (the statement's own restriction on services input)",
			"single writer: entries are applied one after another (raft FSM)",
			"IsValidNickname/IsValidChannel are the definition of syntactic validity (regular expressions are not interpreted)",
		},
		NotCovered: []string{
			"the configured maximum number of channels is enforced by cmdJoin only; services JOIN/SVSJOIN create channels without the test (see DESIGN.md)",
		},
	}
	p.Prepare = func(e *vc.Engine) error {
		var err error
		regs, err = prepareIRC(e)
		if err != nil {
			return err
		}
		// only the invariant obligations: panic sites are C06's business and are assumed safe here
		opts := vc.UnitOpts{NoPanic: false, Post: true, Frame: true}
		p.Units = nil
		p.Units = append(p.Units, UnitPlan{"ircserver.IRCServer.ProcessMessage", opts}, UnitPlan{"main.FSM.applyRobustMessage", opts},
			UnitPlan{"ircserver.IRCServer.maybeLogin", opts}, UnitPlan{"ircserver.NewIRCServer", opts}, UnitPlan{"config.init", opts}, UnitPlan{"ircserver.init", opts})
		for _, h := range handlerNames(regs) {
			p.Units = append(p.Units, UnitPlan{h, opts})
		}
		for _, h := range ircHelpers {
			p.Units = append(p.Units, UnitPlan{h, opts})
		}
		return nil
	}
	p.ExtraUnits = func(e *vc.Engine) ([]*vc.Unit, error) {
		us, err := gateLemmaUnits(e, regs)
		if err != nil {
			return nil, err
		}
		for _, l := range []string{"ircserver.lemma_uniquenicks", "ircserver.lemma_membership", "ircserver.lemma_members"} {
			u, err := e.LemmaUnit(l, e.PkgByName("ircserver"))
			if err != nil {
				return nil, err
			}
			us = append(us, u)
		}
		return us, nil
	}
	register(p)
}
