package props

import "verif/internal/vc"

func init() {
	asserts := vc.UnitOpts{AssertsOnly: true}
	post := vc.UnitOpts{Post: true, Frame: true}
	p := &Plan{
		ID:       "C15",
		Patterns: []string{"."},
		Assumptions: []string{
			"irc.Message.Bytes truncates at 510 bytes (assumed contract of the dependency)",
			"strings.IndexAny returns the first position of any of the given bytes, -1 if none occurs (assumed contract)",
			"propagation inside the handlers is NOT proved: that a reply built from control-character-free parts (literals, fields of earlier lines, Sprintf of such values, ToLower/Split/Join/TrimSpace of them) is itself free of control characters is assumed (fmt.Sprintf and irc.ParseMessage are not interpreted)",
		},
		NotCovered: []string{
			"a line without prefix is accepted as well-formed (the closing ERROR line and lines addressed to services links are deliberately emitted without one); what is proved is: the command is never empty and a prefix, when present, has a non-empty name",
		},
		Units: []UnitPlan{
			{"api.HTTP.handlePostMessage", asserts}, {"api.HTTP.handleDeleteSession", asserts},
			{"ircserver.IRCServer.send", post}, {"ircserver.IRCServer.sendUser", post},
		},
	}
	p.Prepare = func(e *vc.Engine) error {
		_, err := prepareIRC(e)
		if err != nil {
			return err
		}
		regs, err := e.ScanRegistrations("ircserver", "Commands")
		if err != nil {
			return err
		}
		p.Units = append(p.Units[:4], UnitPlan{"ircserver.IRCServer.ProcessMessage", post}, UnitPlan{"ircserver.IRCServer.maybeLogin", post},
			UnitPlan{"ircserver.NewIRCServer", post}, UnitPlan{"ircserver.Session.updateIrcPrefix", post})
		for _, h := range []string{"sendChannel", "sendChannelButOne", "sendCommonChannels", "sendAllUsers", "sendServices", "createSessionLocked", "CreateSession", "deleteSessionLocked"} {
			p.Units = append(p.Units, UnitPlan{"ircserver.IRCServer." + h, post})
		}
		// every registered handler: the line handed to a send helper has a command and a usable prefix
		// (precondition lineOK of the helpers), the prefix invariant wfPrefix is preserved
		for _, h := range handlerNames(regs) {
			p.Units = append(p.Units, UnitPlan{h, post})
		}
		c15regs = regs
		return nil
	}
	p.ExtraUnits = func(e *vc.Engine) ([]*vc.Unit, error) { return gateLemmaUnits(e, c15regs) }
	register(p)
}

var c15regs []vc.Registration
