package props

import "verif/internal/vc"

func init() {
	asserts := vc.UnitOpts{AssertsOnly: true}
	post := vc.UnitOpts{Post: true, Frame: true}
	p := &Plan{
		ID:       "C15",
		Patterns: []string{"."},
		Assumptions: []string{
			"irc.Message.Bytes truncates at 510 bytes (assumed contract of the dependency)",
			"strings.IndexAny returns the first position of any of the given bytes, -1 if none occurs (assumed contract)",
			"propagation inside the handlers is NOT proved: that a reply built from control-character-free parts (literals, fields of earlier lines, Sprintf of such values, ToLower/Split/Join/TrimSpace of them) is itself free of control characters is assumed (fmt.Sprintf and irc.ParseMessage are not interpreted)",
		},
		NotCovered: []string{
			"'starting with a prefix and a command': not checked (the closing ERROR line and lines addressed to services links are deliberately emitted without prefix)",
		},
		Units: []UnitPlan{
			{"api.HTTP.handlePostMessage", asserts}, {"api.HTTP.handleDeleteSession", asserts},
			{"ircserver.IRCServer.send", post}, {"ircserver.IRCServer.sendUser", post},
		},
	}
	p.Prepare = func(e *vc.Engine) error {
		_, err := prepareIRC(e)
		if err != nil {
			return err
		}
		p.Units = append(p.Units[:4], UnitPlan{"ircserver.IRCServer.ProcessMessage", vc.UnitOpts{Post: true, PostOnly: []string{"reply"}}})
		return nil
	}
	register(p)
}
