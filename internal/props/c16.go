package props

import "verif/internal/vc"

func init() {
	post := vc.UnitOpts{Post: true, Frame: true}
	asserts := vc.UnitOpts{AssertsOnly: true}
	p := &Plan{
		ID:       "C16",
		Patterns: []string{"."},
		Assumptions: []string{
			"configuration posts are issued one after another (the statement's own restriction): applyConfig reads the revision and proposes without an intervening update",
			"toml parses identically in the handler and in the state machine (same library; determinism of dependencies is C01's assumption)",
		},
		NotCovered: []string{
			"that the configuration survives snapshot and restore is C03 (Marshal/Unmarshal field obligations), not part of this check",
		},
	}
	p.Prepare = func(e *vc.Engine) error {
		regs, err := prepareIRC(e)
		if err != nil {
			return err
		}
		p.Units = []UnitPlan{
			{"api.HTTP.applyConfig", asserts}, {"api.HTTP.handlePostConfig", asserts}, {"api.HTTP.ircServer", post},
			{"main.FSM.applyRobustMessage", post}, {"config.FromString", post}, {"ircserver.IRCServer.ProcessMessage", post},
			{"ircserver.IRCServer.cmdGline", post}, {"ircserver.IRCServer.maybeLogin", post},
		}
		// every handler keeps the revision (template clause revisionkept)
		for _, h := range handlerNames(regs) {
			if h != "ircserver.IRCServer.cmdGline" {
				p.Units = append(p.Units, UnitPlan{h, vc.UnitOpts{Post: true, PostOnly: []string{"revisionkept"}}})
			}
		}
		return nil
	}
	register(p)
}
