package props

import "verif/internal/vc"

func lemmaUnits(e *vc.Engine, pkg string, names ...string) ([]*vc.Unit, error) {
	var us []*vc.Unit
	for _, l := range names {
		u, err := e.LemmaUnit(l, e.PkgByName(pkg))
		if err != nil {
			return nil, err
		}
		us = append(us, u)
	}
	return us, nil
}

func init() {
	post := vc.UnitOpts{Post: true, Frame: true}
	asserts := vc.UnitOpts{AssertsOnly: true}
	p := &Plan{
		ID:       "C17",
		Patterns: []string{"."},
		Assumptions: []string{
			"entries are applied in increasing id order and name sessions created by earlier entries (raft index order): requires gate-order of FSM.applyRobustMessage",
			"time.Since is read once per sweep (one uninterpreted clock read per last-activity value)",
			"raft.Raft.State is read once per request handler",
			"net/http accessors return what the client sent",
		},
		NotCovered: []string{
			"the leader-only expiry timer in main() (goroutine/timer) is outside any function contract",
			"handleGetMessages is checked against its assert@ clauses only (goroutines, channels and closures stored in the heap are outside the subset; callee preconditions there are assumed)",
		},
	}
	p.Prepare = func(e *vc.Engine) error {
		if _, err := prepareIRC(e); err != nil {
			return err
		}
		p.Units = []UnitPlan{
			{"ircserver.IRCServer.getSessionLocked", post}, {"ircserver.IRCServer.GetSession", post}, {"ircserver.IRCServer.GetAuth", post},
			{"ircserver.IRCServer.ExpireSessions", post}, {"ircserver.IRCServer.deleteSessionLocked", post}, {"ircserver.IRCServer.MaybeDeleteSession", post},
			{"ircserver.IRCServer.SetLastProcessed", post}, {"ircserver.IRCServer.createSessionLocked", post}, {"ircserver.IRCServer.CreateSession", post},
			{"ircserver.IRCServer.ProcessMessage", post}, {"main.FSM.applyRobustMessage", post},
			{"api.HTTP.ircServer", post}, {"api.HTTP.session", post}, {"api.HTTP.sessionOrProxy", asserts}, {"api.HTTP.handleGetMessages", asserts},
		}
		return nil
	}
	p.ExtraUnits = func(e *vc.Engine) ([]*vc.Unit, error) {
		return lemmaUnits(e, "ircserver", "ircserver.lemma_notyetseen", "ircserver.lemma_gone")
	}
	register(p)
}
