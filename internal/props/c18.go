package props

import (
	"fmt"
	"go/token"
	"go/types"
	"strings"

	"golang.org/x/tools/go/ssa"

	"verif/internal/vc"
)

// sameEntrySweep: zero-annotation obligation at every call of
// robust.NewMessageFromBytes in the repository: the data argument is the Data
// field of some entry value e and the index argument is
// robust.IdFromRaftIndex(e.Index) of the very same e. (The id of a replicated
// message defaults to the raft index of the entry that carries it; a reader
// that pairs the data of one entry with another index, or passes the bare
// index, decodes a different message than every other reader.)
func sameEntrySweep(e *vc.Engine) []StructResult {
	var out []StructResult
	fieldOf := func(v ssa.Value) (base ssa.Value, field string, ok bool) {
		switch x := v.(type) {
		case *ssa.UnOp:
			if x.Op != token.MUL {
				return nil, "", false
			}
			if fa, isFA := x.X.(*ssa.FieldAddr); isFA {
				return fa.X, fieldName(fa), true
			}
		case *ssa.Field:
			return x.X, fieldNameV(x), true
		}
		return nil, "", false
	}
	n := 0
	for fn := range allFuncs(e.Prog) {
		if !strings.HasPrefix(fnPkgPath(fn), vc.RepoModule) || strings.HasSuffix(fn.Name(), "_test") {
			continue
		}
		for _, b := range fn.Blocks {
			for _, in := range b.Instrs {
				call, ok := in.(*ssa.Call)
				if !ok {
					continue
				}
				callee := call.Call.StaticCallee()
				if callee == nil || callee.Name() != "NewMessageFromBytes" || fnPkgPath(callee) != vc.RepoModule+"/internal/robust" {
					continue
				}
				if pos := e.Prog.Fset.Position(call.Pos()); strings.HasSuffix(pos.Filename, "_test.go") {
					continue
				}
				n++
				pos := e.Prog.Fset.Position(call.Pos())
				name := fmt.Sprintf("%s/same-entry/NewMessageFromBytes@%s", vc.ShortName(fn), shortPos(pos))
				res := StructResult{Name: name}
				dbase, dfield, ok1 := fieldOf(call.Call.Args[0])
				var ibase ssa.Value
				var ifield string
				ok2 := false
				if ic, isCall := call.Call.Args[1].(*ssa.Call); isCall {
					if c2 := ic.Call.StaticCallee(); c2 != nil && c2.Name() == "IdFromRaftIndex" && fnPkgPath(c2) == vc.RepoModule+"/internal/robust" {
						ibase, ifield, ok2 = fieldOf(ic.Call.Args[0])
					}
				}
				switch {
				case !ok1 || dfield != "Data":
					res.Detail = "the data argument is not the Data field of an entry"
				case !ok2:
					res.Detail = "the index argument is not robust.IdFromRaftIndex(<entry>.Index)"
				case ifield != "Index":
					res.Detail = "the index argument is IdFromRaftIndex of field " + ifield + ", not Index"
				case dbase != ibase:
					res.Detail = fmt.Sprintf("data comes from %s but the index from %s", dbase.Name(), ibase.Name())
				default:
					res.OK = true
					res.Detail = "data and index are taken from the same entry " + dbase.Name()
				}
				out = append(out, res)
			}
		}
	}
	out = append(out, StructResult{Name: "robust.NewMessageFromBytes/same-entry/call-sites-found", OK: n >= 8, Detail: fmt.Sprintf("%d call sites", n)})
	return out
}

func fieldName(fa *ssa.FieldAddr) string {
	t := fa.X.Type().Underlying().(*types.Pointer).Elem().Underlying().(*types.Struct)
	return t.Field(fa.Field).Name()
}

func fieldNameV(f *ssa.Field) string {
	t := f.X.Type().Underlying().(*types.Struct)
	return t.Field(f.Field).Name()
}

func shortPos(p token.Position) string {
	f := p.Filename
	if i := strings.LastIndex(f, "/"); i >= 0 {
		f = f[i+1:]
	}
	return fmt.Sprintf("%s:%d", f, p.Line)
}

func init() {
	post := vc.UnitOpts{Post: true, Frame: true, Asserts: true}
	asserts := vc.UnitOpts{AssertsOnly: true}
	p := &Plan{
		ID:       "C18",
		Patterns: []string{"."},
		Assumptions: []string{
			"proto.Marshal/proto.Unmarshal and json.Marshal/json.Unmarshal are inverse on the generated message types (dependency; not interpreted): what is proved is that every writer fills and every reader copies every field, through one shared relation per format (pbRepr for replicated messages, raftRepr for log entries)",
			"log entries were written by ProtoMessage/CopyToProtoMessage, which always set the Id and Session sub-messages (assume@after proto.Unmarshal in NewMessageFromBytes)",
			"timestamppb.New(t).AsTime() == t on the wall-clock abstraction of time.Time; Timestamp objects are immutable",
			"integer conversions between robust.Type (int64) and the generated enum (int32) are mathematical (all values are < 9)",
		},
		NotCovered: []string{
			"the legacy JSON branches: json.Unmarshal fills the Go value directly, there is no field-by-field code to put under contract",
			"the byte-level round trip of the hand-written binary codec of the output store (messageBatch.marshal / unmarshalMessageBatch) needs a recursive description of a variable-length byte layout, which this generator does not reach; what is proved about it is only that every decoded message owns a fresh recipient map distinct from all others. A labelled BOUNDED stand-in runs the real marshal+unmarshal on every batch within the bound listed under bounded_standins (not a proof, not counted)",
		},
	}
	p.Prepare = func(e *vc.Engine) error {
		p.Units = []UnitPlan{
			{"robust.Message.ProtoMessage", post}, {"robust.Message.CopyToProtoMessage", post}, {"robust.NewMessageFromBytes", post},
			{"robust.IdFromRaftIndex", post}, {"raftlog.FromBytes", post},
			{"raftstore.LevelDBStore.GetLog", asserts}, {"raftstore.LevelDBStore.StoreLogs", asserts}, {"raftstore.LevelDBStore.StoreLogProto", asserts},
			{"raftstore.LevelDBStore.ConvertToProto", asserts},
			{"main.FSM.Apply", asserts}, {"main.FSM.Snapshot", vc.UnitOpts{AssertsOnly: true, Groups: []string{"decoded", "same-entry"}}}, {"main.FSM.decodeProtobuf", asserts}, {"main.dumpLogToDisk1", asserts}, {"main.canary", asserts},
			{"outputstream.unmarshalMessageBatch", post},
		}
		return nil
	}
	p.Structural = sameEntrySweep
	p.BoundedRun = codecBounded
	p.ExtraUnits = func(e *vc.Engine) ([]*vc.Unit, error) { return lemmaUnits(e, "robust", "robust.lemma_encoders_agree") }
	register(p)
}
