package props

import (
	"fmt"
	"os"
	"os/exec"
	"path/filepath"
	"strings"
)

// The hand-written binary codec of the output store is outside the reach of the contracts (variable
// length layout). As a labelled bounded stand-in its round trip is run on the real code for every
// batch within the stated bound (exhaustive enumeration, not sampling). This is not a proof and is
// never counted as one.
const codecBound = "all batches with 0..2 messages; per message Id.Id in {0, 7, 2^64-1}, Reply in {1, 2}, Data in {\"\", \"a\", \"ab\\x00\\nü\"}, recipients a subset of {1, 2^63}; NextID in {0, 5, 2^64-1}"

const codecTest = `package outputstream

import (
	"math"
	"reflect"
	"testing"

	"github.com/robustirc/robustirc/internal/robust"
)

func TestBoundedCodecRoundTrip(t *testing.T) {
	ids := []uint64{0, 7, math.MaxUint64}
	replies := []uint64{1, 2}
	datas := []string{"", "a", "ab\x00\nü"}
	recips := [][]uint64{{}, {1}, {1, 1 << 63}, {1 << 63}}
	var msgs []Message
	for _, id := range ids {
		for _, r := range replies {
			for _, d := range datas {
				for _, rc := range recips {
					m := map[uint64]bool{}
					for _, x := range rc {
						m[x] = true
					}
					msgs = append(msgs, Message{Id: robust.Id{Id: id, Reply: r}, Data: d, InterestingFor: m})
				}
			}
		}
	}
	n := 0
	check := func(b *messageBatch) {
		n++
		got := unmarshalMessageBatch(b.marshal())
		if got.NextID != b.NextID || len(got.Messages) != len(b.Messages) {
			t.Fatalf("CONTRACT VIOLATED: batch %+v decodes to %+v", b, got)
		}
		for k := range b.Messages {
			w, g := b.Messages[k], got.Messages[k]
			if w.Id != g.Id || w.Data != g.Data || len(w.InterestingFor) != len(g.InterestingFor) || (len(w.InterestingFor) > 0 && !reflect.DeepEqual(w.InterestingFor, g.InterestingFor)) {
				t.Fatalf("CONTRACT VIOLATED: message %d of batch %+v decodes to %+v", k, b, got)
			}
			for j := range got.Messages {
				if j != k && g.InterestingFor != nil && reflect.ValueOf(g.InterestingFor).Pointer() == reflect.ValueOf(got.Messages[j].InterestingFor).Pointer() {
					t.Fatalf("CONTRACT VIOLATED: messages %d and %d of the decoded batch share one recipient map (batch %+v)", k, j, b)
				}
			}
		}
	}
	for _, next := range []uint64{0, 5, math.MaxUint64} {
		check(&messageBatch{NextID: next})
		for a := range msgs {
			check(&messageBatch{NextID: next, Messages: []Message{msgs[a]}})
			for b := range msgs {
				check(&messageBatch{NextID: next, Messages: []Message{msgs[a], msgs[b]}})
			}
		}
	}
	t.Logf("BOUNDED-CASES %d", n)
}
`

// BoundedResult is the outcome of one bounded stand-in.
type BoundedResult struct {
	Name, Bound, Detail, Replay string
	OK                          bool
	Cases                       string
}

func codecBounded(outDir, tier string) []BoundedResult {
	dir := filepath.Join(outDir, "bounded")
	os.MkdirAll(dir, 0o755)
	tf := filepath.Join(dir, "zz_bounded_codec_test.go")
	os.WriteFile(tf, []byte(codecTest), 0o644)
	ov := filepath.Join(dir, "codec.overlay.json")
	os.WriteFile(ov, []byte(fmt.Sprintf(`{"Replace": {%q: %q}}`, "/repo/internal/outputstream/zz_bounded_codec_test.go", tf)), 0o644)
	cmd := exec.Command("bash", "-c", fmt.Sprintf("cd /repo && go test -overlay %s -vet=off -count=1 -timeout 300s -v -run '^TestBoundedCodecRoundTrip$' ./internal/outputstream 2>&1", ov))
	cmd.Env = append(os.Environ(), "GOFLAGS=-mod=mod", "GOPROXY=off", "GOSUMDB=off", "GOTOOLCHAIN=local")
	out, err := cmd.CombinedOutput()
	os.WriteFile(tf+".out", out, 0o644)
	s := string(out)
	r := BoundedResult{Name: "outputstream.messageBatch.marshal+unmarshalMessageBatch/bounded/roundtrip", Bound: codecBound, Replay: tf}
	if i := strings.Index(s, "BOUNDED-CASES "); i >= 0 {
		r.Cases = strings.Fields(s[i+len("BOUNDED-CASES "):])[0]
	}
	r.OK = err == nil && strings.Contains(s, "ok  ") && !strings.Contains(s, "CONTRACT VIOLATED") && !strings.Contains(s, "panic:") && r.Cases != ""
	if !r.OK {
		d := s
		if len(d) > 1500 {
			d = d[len(d)-1500:]
		}
		r.Detail = d
	} else {
		r.Detail = "round trip holds for all " + r.Cases + " batches within the bound"
	}
	return []BoundedResult{r}
}
