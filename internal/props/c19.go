package props

import (
	"fmt"
	"os"
	"os/exec"
	"path/filepath"
	"strings"

	"verif/internal/vc"
)

func init() {
	full := vc.UnitOpts{NoPanic: true, Post: true, Frame: true}
	register(&Plan{
		ID:       "C19",
		Patterns: []string{"./internal/timesafeguard"},
		Units: []UnitPlan{
			{"timesafeguard.timeResult.worstCaseDrift", full},
			{"timesafeguard.timeInSync", full},
			{"timesafeguard.synchronizedWithNetwork", full},
			{"timesafeguard.init", full},
			{"timesafeguard.collectTime", full},
			// log.Fatalf when the node to join cannot be reached is the intended refusal: not a panic obligation here
			{"timesafeguard.SynchronizedWithNetwork", vc.UnitOpts{Post: true, Frame: true}},
			{"timesafeguard.SynchronizedWithMasterAndNetwork", vc.UnitOpts{Post: true, Frame: true}},
		},
		Assumptions: []string{
			"time.Time is abstracted to one unbounded integer of wall-clock nanoseconds (zero value = 0); monotonic readings and locations are not modelled",
			"the remote clock was sampled at a local instant u0 with Start <= u0 <= End (definition of a measurement)",
			"machine arithmetic on time.Duration is exact 64-bit two's complement (arith exact); Time.Sub saturates",
		},
		NotCovered: []string{
			"the bodies of the measuring goroutines in collectTime and getServerTime (HTTP) are not followed: that an unanswered peer leaves a zero Result is assumed from make([]timeResult, n)",
			"the call order in main() (time check before raft.NewRaft / before joining) is not under contract",
		},
		Replay: replayC19,
	})
}

// replayC19 runs the real worstCaseDrift on the solver's counterexample.
func replayC19(e *vc.Engine, u *vc.Unit, ob *vc.Oblig, dir string) (bool, string) {
	if u.Name() != "timesafeguard.timeResult.worstCaseDrift" {
		return false, ""
	}
	vals := vc.ParseModelValues(ob.Model)
	get := func(human string) (string, bool) {
		for term, h := range u.ModelNames {
			if h == human {
				if v, ok := vals[term]; ok {
					return vc.IntValue(v)
				}
			}
		}
		return "", false
	}
	start, ok1 := get("t.Start")
	end, ok2 := get("t.End")
	res, ok3 := get("t.Result")
	if !ok1 || !ok2 || !ok3 {
		return false, ""
	}
	theta, okT := get("witness theta")
	u0, okU := get("witness u0")
	if !okT || !okU {
		theta, u0 = "0", start
	}
	test := fmt.Sprintf(`package timesafeguard

import (
	"math/big"
	"testing"
	"time"
)

// Replay of obligation %s
// model: Start=%s End=%s Result=%s (ns since year 1), witnesses theta=%s u0=%s
func mkTime(ns string) time.Time {
	n, _ := new(big.Int).SetString(ns, 10)
	if n.Sign() == 0 {
		return time.Time{}
	}
	sec, nsec := new(big.Int).DivMod(n, big.NewInt(1000000000), new(big.Int))
	// seconds since year 1 -> Unix
	sec.Sub(sec, big.NewInt(62135596800))
	return time.Unix(sec.Int64(), nsec.Int64()).UTC()
}

func TestZZReplay(t *testing.T) {
	tr := timeResult{Start: mkTime(%q), End: mkTime(%q), Result: mkTime(%q)}
	got := tr.worstCaseDrift()
	theta, _ := new(big.Int).SetString(%q, 10)
	abs := new(big.Int).Abs(theta)
	t.Logf("worstCaseDrift=%%v (%%d ns), true offset |theta|=%%s ns", got, int64(got), abs)
	if got < 0 {
		t.Fatalf("CONTRACT VIOLATED: negative drift %%d", int64(got))
	}
	if got < ElectionTimeout && abs.Cmp(big.NewInt(int64(ElectionTimeout))) >= 0 {
		t.Fatalf("CONTRACT VIOLATED: drift %%v < ElectionTimeout although the true offset is %%s ns", got, abs)
	}
}
`, ob.Name, start, end, res, theta, u0, start, end, res, theta)
	return runOverlayTest(dir, "internal/timesafeguard", "zz_replay_c19_test.go", test, "TestZZReplay")
}

// runOverlayTest injects an in-package test through -overlay (nothing is
// written to /repo) and reports whether it failed with CONTRACT VIOLATED.
func runOverlayTest(dir, pkgRel, fname, src, run string) (bool, string) {
	os.MkdirAll(dir, 0o755)
	tf := filepath.Join(dir, fname)
	os.WriteFile(tf, []byte(src), 0o644)
	ov := filepath.Join(dir, strings.TrimSuffix(fname, ".go")+".overlay.json")
	target := filepath.Join("/repo", pkgRel, fname)
	os.WriteFile(ov, []byte(fmt.Sprintf(`{"Replace": {%q: %q}}`, target, tf)), 0o644)
	cmd := exec.Command("bash", "-c", fmt.Sprintf("ulimit -v 8000000; cd /repo && go test -overlay %s -vet=off -count=1 -timeout 60s -run '^%s$' ./%s 2>&1", ov, run, pkgRel))
	cmd.Env = append(os.Environ(), "GOFLAGS=-mod=mod", "GOPROXY=off", "GOSUMDB=off", "GOTOOLCHAIN=local")
	out, _ := cmd.CombinedOutput()
	os.WriteFile(tf+".out", out, 0o644)
	s := string(out)
	return strings.Contains(s, "CONTRACT VIOLATED") || strings.Contains(s, "panic:"), tf
}
