package props

import (
	"sort"
	"strings"

	"verif/internal/vc"
)

func init() {
	var regs []vc.Registration
	lk := vc.UnitOpts{Post: true, LocksOnly: true}
	p := &Plan{
		ID:       "C20",
		LockMode: true,
		Patterns: []string{"."},
		Assumptions: []string{
			"lock state is tracked through assumed contracts of sync.RWMutex (contracts/deps_locks.spec): after Lock/RLock the caller holds the mutex, Unlock/RUnlock release it and require it to be held; callees never change which mutexes the caller holds",
			"a memory access is race-free if every write to the location happens under the write lock of its guard and every read under the read or write lock (the `guard` directives in the contract files say which mutex guards what); Session.Id and Session.auth are immutable after creation and need no lock",
			"command handlers run with the session lock held for writing: this is their precondition (locks-held), discharged at the dispatch in ProcessMessage",
			"deferred calls run at every return (modelled), sync.Cond.Wait re-acquires the mutex before it returns",
		},
		NotCovered: []string{
			"accesses through a *Session or a map obtained under the lock and used after it was released by the caller (api package: handlers read fields of the *Session returned by GetSession: no IRCServer is a parameter there, so the guard cannot name the lock), closures started as goroutines inside api handlers, raftstore.LevelDBStore (its mutex guards only the db pointer), FSM fields, the Prometheus collectors; goroutine creation and channel operations; atomics",
			"this is lock discipline proved per function, not an exploration of schedules: a race through a location that has no guard directive is not seen",
		},
	}
	p.Prepare = func(e *vc.Engine) error {
		var err error
		regs, err = prepareIRC(e)
		if err != nil {
			return err
		}
		p.Units = nil
		for _, m := range []string{"UpdateLastClientMessageID", "CreateSession", "ExpireSessions", "Banned", "SetLastProcessed", "MaybeDeleteSession", "GetSession", "GetAuth", "GetNick",
			"ThrottleUntil", "LastPostMessage", "GetSessions", "NumSessions", "NumChannels", "TrustedBridge", "SessionLimit", "ChannelLimit", "OriginWhitelisted",
			"ProcessMessage", "createSessionLocked", "deleteSessionLocked", "maybeDeleteChannelLocked", "getSessionLocked", "maybeLogin"} {
			p.Units = append(p.Units, UnitPlan{"ircserver.IRCServer." + m, lk})
		}
		p.Units = append(p.Units, UnitPlan{"ircserver.IRCServer.Unmarshal", vc.UnitOpts{Post: true, LocksOnly: true, Groups: []string{"locks"}}}, UnitPlan{"ircserver.NewIRCServer", lk},
			UnitPlan{"ircserver.IRCServer.Marshal", vc.UnitOpts{Post: true, LocksOnly: true, Groups: []string{"locks"}}})
		for _, h := range handlerNames(regs) {
			p.Units = append(p.Units, UnitPlan{h, lk})
		}
		for _, m := range []string{"Add", "Delete", "Get", "GetNext", "LastSeen", "getUnlocked", "InterruptGetNext"} {
			p.Units = append(p.Units, UnitPlan{"outputstream.OutputStream." + m, lk})
		}
		p.Units = append(p.Units, UnitPlan{"main.FSM.applyRobustMessage", lk}, UnitPlan{"main.FSM.sessionExpiration", lk})
		// every method of api.HTTP: the pointers swapped by Restore are only touched under HTTP.mu
		var apis []string
		for name := range e.Funcs {
			if strings.HasPrefix(name, "api.HTTP.") && !strings.Contains(name, "$") {
				apis = append(apis, name)
			}
		}
		sort.Strings(apis)
		for _, n := range apis {
			p.Units = append(p.Units, UnitPlan{n, vc.UnitOpts{Post: true, LocksOnly: true, NoCover: true}})
		}
		return nil
	}
	register(p)
}
