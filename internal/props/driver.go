// Package props turns the fixed properties C01..C20 into sets of named proof
// obligations over the contracts in /repo and reports them.
package props

import (
	"bufio"
	"context"
	"crypto/sha1"
	"encoding/json"
	"fmt"
	"os"
	"path/filepath"
	"runtime"
	"sort"
	"strings"
	"sync"
	"time"

	"verif/internal/vc"
)

type UnitPlan struct {
	Func string
	Opts vc.UnitOpts
}

// Structural obligations are decided on the SSA without a solver (effect,
// dominance and completeness checks); they are reported like the others.
type StructResult struct {
	Name   string
	OK     bool
	Detail string
}

// groupCoverage: a function that is proved in clause groups (UnitOpts.Groups) must have every labelled
// loop invariant and assert@ clause of its contract in the groups of at least one unit; a label that no
// unit selects would otherwise silently never be checked (and an assumed group never be proved).
func groupCoverage(e *vc.Engine, units []UnitPlan) []StructResult {
	byFunc := map[string][]vc.UnitOpts{}
	grouped := map[string]bool{}
	var order []string
	for _, u := range units {
		if _, ok := byFunc[u.Func]; !ok {
			order = append(order, u.Func)
		}
		byFunc[u.Func] = append(byFunc[u.Func], u.Opts)
		if len(u.Opts.Groups) > 0 && !u.Opts.AssertsOnly && !u.Opts.LocksOnly && !u.Opts.FrameOnly {
			grouped[u.Func] = true
		}
	}
	var out []StructResult
	for _, fn := range order {
		ct := e.Specs.Contracts[fn]
		if !grouped[fn] || ct == nil {
			continue
		}
		labels := map[string]bool{}
		for _, c := range ct.LoopInv {
			labels[c.Label] = true
		}
		for _, ls := range ct.Loops {
			for _, c := range ls.Invariants {
				labels[c.Label] = true
			}
		}
		assertOnly := map[string]bool{}
		for _, a := range ct.Asserts {
			if !a.Assume {
				if !labels[a.Label] {
					assertOnly[a.Label] = true
				}
				labels[a.Label] = true
			}
		}
		var missing []string
		for l := range labels {
			if l == "" || strings.HasPrefix(l, "locks-") {
				continue
			}
			ok := false
			for _, o := range byFunc[fn] {
				if (!o.AssertsOnly || assertOnly[l]) && o.Proves(l) {
					ok = true
				}
			}
			if !ok {
				missing = append(missing, l)
			}
		}
		sort.Strings(missing)
		out = append(out, StructResult{Name: fn + "/groups/every labelled clause is proved by some unit", OK: len(missing) == 0,
			Detail: "labelled clauses selected by no unit of the plan: " + strings.Join(missing, ", ")})
	}
	return out
}

type Plan struct {
	// BoundedRun: labelled bounded stand-ins (exhaustive runs of the real code within a stated bound) for
	// functions the contracts cannot reach; reported separately, never counted as proved.
	BoundedRun  func(outDir, tier string) []BoundedResult
	LockMode    bool // lock tracking (C20)
	ID          string
	Patterns    []string
	Units       []UnitPlan
	Structural  func(e *vc.Engine) []StructResult
	Prepare     func(e *vc.Engine) error
	// ExtraUnits builds additional units (lemmas) that are discharged like the others.
	ExtraUnits  func(e *vc.Engine) ([]*vc.Unit, error)
	Assumptions []string
	NotCovered  []string
	Bounded     []string
	// Replay turns a failed obligation with a model into a replay on the real code.
	Replay func(e *vc.Engine, u *vc.Unit, ob *vc.Oblig, dir string) (reproduced bool, file string)
}

var Plans = map[string]*Plan{}

func register(p *Plan) { Plans[p.ID] = p }

type Known struct {
	Kind       string // known | fixed
	Property   string
	Obligation string
	Text       string
}

func LoadKnown(path string) []Known {
	var ks []Known
	f, err := os.Open(path)
	if err != nil {
		return nil
	}
	defer f.Close()
	sc := bufio.NewScanner(f)
	for sc.Scan() {
		l := strings.TrimSpace(sc.Text())
		if l == "" || strings.HasPrefix(l, "#") {
			continue
		}
		var k Known
		switch {
		case strings.HasPrefix(l, "known:"):
			k.Kind = "known"
			l = strings.TrimSpace(l[6:])
		case strings.HasPrefix(l, "fixed:"):
			k.Kind = "fixed"
			l = strings.TrimSpace(l[6:])
		default:
			continue
		}
		// property=Cxx obligation="...." rest
		if strings.HasPrefix(l, "property=") {
			i := strings.Index(l, " ")
			if i < 0 {
				i = len(l)
			}
			k.Property = l[len("property="):i]
			l = strings.TrimSpace(l[i:])
		}
		if strings.HasPrefix(l, "obligation=\"") {
			j := strings.Index(l[len("obligation=\""):], "\"")
			if j >= 0 {
				k.Obligation = l[len("obligation=\"") : len("obligation=\"")+j]
				l = strings.TrimSpace(l[len("obligation=\"")+j+1:])
			}
		}
		k.Text = l
		ks = append(ks, k)
	}
	return ks
}

type Evidence struct {
	PropertyID  string                 `json:"property_id"`
	Tier        string                 `json:"tier"`
	Seed        int                    `json:"seed"`
	Level       string                 `json:"level"`
	Coverage    map[string]interface{} `json:"coverage"`
	Assumptions []string               `json:"assumptions"`
	WallS       float64                `json:"wall_s"`
	Violations  int                    `json:"violations"`
}

// Check runs one property; returns the process exit code.
func Check(id, tier string, seed int) int {
	start := time.Now()
	p := Plans[id]
	if p == nil {
		fmt.Printf("ENGINE-ERROR no plan for property %s\n", id)
		return 2
	}
	verif := "/verif"
	outDir := filepath.Join(verif, "out", id)
	os.RemoveAll(outDir)
	os.MkdirAll(filepath.Join(outDir, "replay"), 0o755)
	pats := p.Patterns
	if len(pats) == 0 {
		pats = []string{"./..."}
	}
	vc.LockModeDefault = p.LockMode
	e, err := vc.Load("/repo", verif, pats...)
	if err != nil {
		fmt.Printf("ENGINE-ERROR property=%s load: %v\n", id, err)
		return 2
	}
	loadS := time.Since(start).Seconds()
	if p.Prepare != nil {
		if err := p.Prepare(e); err != nil {
			fmt.Printf("ENGINE-ERROR property=%s prepare: %v\n", id, err)
			return 2
		}
	}
	timeout := 20000
	if tier == "thorough" {
		timeout = 60000
	}
	// 1. generate
	type unitRes struct {
		plan UnitPlan
		u    *vc.Unit
		err  error
	}
	results := make([]unitRes, len(p.Units))
	var wg sync.WaitGroup
	sem := make(chan struct{}, runtime.NumCPU())
	stats := map[string]*vc.SolverStat{}
	var mu sync.Mutex
	for i, up := range p.Units {
		i, up := i, up
		wg.Add(1)
		go func() {
			defer wg.Done()
			sem <- struct{}{}
			defer func() { <-sem }()
			opts := up.Opts
			opts.Cover = !opts.NoCover
			u, err := e.VerifyFunc(up.Func, opts)
			results[i] = unitRes{up, u, err}
			if err == nil {
				u.Discharge(context.Background(), vc.RunOpts{TimeoutMs: timeout, Seed: seed, Tier: tier, OutDir: outDir}, stats, &mu)
			}
		}()
	}
	wg.Wait()
	if p.ExtraUnits != nil {
		us, err := p.ExtraUnits(e)
		if err != nil {
			fmt.Printf("ENGINE-ERROR property=%s %v\n", id, err)
			return 2
		}
		var wg2 sync.WaitGroup
		for _, u := range us {
			u := u
			results = append(results, unitRes{UnitPlan{Func: u.Name()}, u, nil})
			wg2.Add(1)
			go func() {
				defer wg2.Done()
				u.Discharge(context.Background(), vc.RunOpts{TimeoutMs: timeout, Seed: seed, Tier: tier, OutDir: outDir}, stats, &mu)
			}()
		}
		wg2.Wait()
	}
	// last chance, one obligation at a time with the whole machine: see vc.(*Unit).LastChance
	{
		n := 0
		for _, r := range results {
			if r.err != nil || r.u == nil {
				continue
			}
			for _, ob := range r.u.Obligations() {
				if ob.Cover || ob.OK() || n >= 8 {
					continue
				}
				n++
				if r.u.LastChance(context.Background(), ob, 3*timeout, seed) {
					mu.Lock()
					st := stats["last chance (sequential, 3 solvers)"]
					if st == nil {
						st = &vc.SolverStat{}
						stats["last chance (sequential, 3 solvers)"] = st
					}
					st.Discharged++
					st.Seconds += ob.Seconds
					mu.Unlock()
				}
			}
		}
	}
	known := LoadKnown(filepath.Join(verif, "known_findings.txt"))
	knownByName := map[string]Known{}
	for _, k := range known {
		if k.Kind == "known" && k.Property == id {
			knownByName[k.Obligation] = k
		}
	}
	engineErr := false
	nObl, nDis, nCover, nCoverOK, nKnown := 0, 0, 0, 0, 0
	var violations []string
	var samples []interface{}
	var retried []interface{}
	assume := map[string]bool{}
	for _, a := range p.Assumptions {
		assume[a] = true
	}
	var funcs []string
	solverSecs := 0.0
	for _, r := range results {
		if r.err != nil {
			fmt.Printf("ENGINE-ERROR property=%s %v\n", id, r.err)
			engineErr = true
			continue
		}
		funcs = append(funcs, r.plan.Func)
		for a := range r.u.Assumptions() {
			assume[a] = true
		}
		if r.plan.Opts.AssertsOnly {
			// a unit that is run for its anchored assertions only must have some (a contract file that
			// got lost or a renamed function would otherwise pass silently)
			proofs := 0
			for _, ob := range r.u.Obligations() {
				if !ob.Cover {
					proofs++
				}
			}
			if proofs == 0 {
				fmt.Printf("ENGINE-ERROR property=%s %s generated no obligation (no assert@ clause matched)\n", id, r.plan.Func)
				engineErr = true
			}
		}
		for _, ob := range r.u.Obligations() {
			if ob.Cover {
				nCover++
				if ob.Status == "unsat" && r.u.DeadOK(ob.Name) {
					nCoverOK++
					continue
				}
				if ob.Status == "unsat" {
					fmt.Printf("ENGINE-ERROR property=%s vacuous: %s is unreachable under the assumptions\n", id, ob.Name)
					engineErr = true
				} else {
					nCoverOK++
				}
				continue
			}
			if k, ok := knownByName[ob.Name]; ok {
				nKnown++
				if ob.OK() {
					fmt.Printf("NOTE property=%s listed finding no longer fails: %s\n", id, ob.Name)
				} else {
					fmt.Printf("KNOWN-FINDING: property=%s %s %s\n", id, ob.Name, k.Text)
				}
				continue
			}
			nObl++
			if ob.OK() {
				nDis++
				if len(samples) < 5 {
					samples = append(samples, map[string]string{"obligation": ob.Name, "goal": ob.Goal, "status": "unsat", "solver": ob.Solver})
				}
				if ob.Solver != "" && !strings.HasPrefix(ob.Solver, "z3-new-5.1.0") || strings.Contains(ob.Solver, "seed+") || ob.Seconds > 5 {
					// not decided by the primary solver on the whole script, or slow: the ones to watch
					if len(retried) < 40 {
						retried = append(retried, map[string]interface{}{"obligation": ob.Name, "solver": ob.Solver, "seconds": round2(ob.Seconds)})
					}
				}
				continue
			}
			// a failed obligation: report, try to replay
			h := sha1.Sum([]byte(ob.Name))
			rp := filepath.Join(outDir, "replay", fmt.Sprintf("%x.json", h[:6]))
			reproduced := false
			testFile := ""
			if p.Replay != nil && ob.Status == "sat" {
				reproduced, testFile = p.Replay(e, r.u, ob, filepath.Join(outDir, "replay"))
			}
			rj := map[string]interface{}{"property": id, "obligation": ob.Name, "goal": ob.Goal, "solver_status": ob.Status,
				"solver": ob.Solver, "solver_output": ob.Model, "replayed_on_real_code": reproduced, "replay_test": testFile,
				"smt2": filepath.Join(outDir, "smt", "retry_"+sanitize(ob.Name)+".smt2")}
			b, _ := json.MarshalIndent(rj, "", " ")
			os.WriteFile(rp, b, 0o644)
			line := fmt.Sprintf("VIOLATION property=%s replay=%s", id, rp)
			if !reproduced {
				line += " no-failing-input-found"
			}
			fmt.Printf("FAILED-OBLIGATION %s status=%s solver=%s\n   goal: %s\n", ob.Name, ob.Status, ob.Solver, ob.Goal)
			violations = append(violations, line)
		}
	}
	structural := groupCoverage(e, p.Units)
	if p.Structural != nil {
		structural = append(structural, p.Structural(e)...)
	}
	if len(structural) > 0 {
		for _, sr := range structural {
			if k, ok := knownByName[sr.Name]; ok {
				nKnown++
				if !sr.OK {
					fmt.Printf("KNOWN-FINDING: property=%s %s %s\n", id, sr.Name, k.Text)
				} else {
					fmt.Printf("NOTE property=%s listed finding no longer fails: %s\n", id, sr.Name)
				}
				continue
			}
			nObl++
			if sr.OK {
				nDis++
				continue
			}
			h := sha1.Sum([]byte(sr.Name))
			rp := filepath.Join(outDir, "replay", fmt.Sprintf("%x.json", h[:6]))
			b, _ := json.MarshalIndent(map[string]interface{}{"property": id, "obligation": sr.Name, "detail": sr.Detail, "decided_by": "structural check on the SSA (no solver)"}, "", " ")
			os.WriteFile(rp, b, 0o644)
			fmt.Printf("FAILED-OBLIGATION %s (structural)\n   %s\n", sr.Name, sr.Detail)
			violations = append(violations, fmt.Sprintf("VIOLATION property=%s replay=%s no-failing-input-found", id, rp))
		}
	}
	var boundedEv []map[string]interface{}
	if p.BoundedRun != nil {
		for _, br := range p.BoundedRun(outDir, tier) {
			boundedEv = append(boundedEv, map[string]interface{}{"name": br.Name, "bound": br.Bound, "cases": br.Cases, "held": br.OK, "label": "bounded (exhaustive within the bound on the real code; not a proof, not counted in obligations/discharged)"})
			if k, ok := knownByName[br.Name]; ok {
				nKnown++
				if !br.OK {
					fmt.Printf("KNOWN-FINDING: property=%s %s %s\n", id, br.Name, k.Text)
				}
				continue
			}
			if !br.OK {
				fmt.Printf("FAILED-OBLIGATION %s (bounded stand-in, real code)\n   %s\n", br.Name, br.Detail)
				violations = append(violations, fmt.Sprintf("VIOLATION property=%s replay=%s", id, br.Replay))
			}
		}
	}
	if nObl == 0 {
		fmt.Printf("ENGINE-ERROR property=%s generated no obligations\n", id)
		engineErr = true
	}
	bySolver := map[string]interface{}{}
	_ = retried
	for k, v := range stats {
		bySolver[k] = map[string]interface{}{"discharged": v.Discharged, "seconds": round2(v.Seconds)}
		solverSecs += v.Seconds
	}
	var as []string
	for a := range assume {
		as = append(as, a)
	}
	sort.Strings(as)
	sort.Strings(funcs)
	if len(samples) == 0 {
		samples = append(samples, "none discharged")
	}
	ev := Evidence{PropertyID: id, Tier: tier, Seed: seed, Level: "proof", Assumptions: as, WallS: round2(time.Since(start).Seconds()), Violations: len(violations)}
	ev.Coverage = map[string]interface{}{
		"obligations":              nObl,
		"discharged":               nDis,
		"checker_cmd":              fmt.Sprintf("bin/govc check %s --tier %s  (VC generation over go/ssa of /repo's working tree with -tags verif; z3-new 5.1.0 primary, z3 4.8.12 and cvc5 1.0.3 on retry)", id, tier),
		"trusted_base":             []string{"go/types + golang.org/x/tools/go/ssa v0.29.0 (SSA is taken as the program)", "govc VC generator (/verif/internal/vc)", "z3 5.1.0 / z3 4.8.12 / cvc5 1.0.3 (an obligation is discharged when a solver answers unsat)", "assumed contracts in /verif/contracts/deps.spec"},
		"functions_under_contract": funcs,
		"by_solver":                bySolver,
		"solver_seconds":           round2(solverSecs),
		"load_seconds":             round2(loadS),
		"cover_checks":             nCover,
		"cover_not_refuted":        nCoverOK,
		"known_findings":           nKnown,
		"not_covered":              p.NotCovered,
		"bounded_standins":         boundedEv,
		"samples":                  samples,
		"retried_or_slow":          retried,
	}
	os.MkdirAll(filepath.Join(verif, "evidence"), 0o755)
	b, _ := json.MarshalIndent(ev, "", " ")
	os.WriteFile(filepath.Join(verif, "evidence", id+".json"), b, 0o644)
	fmt.Printf("property=%s tier=%s obligations=%d discharged=%d known=%d cover=%d/%d wall=%.1fs\n", id, tier, nObl, nDis, nKnown, nCoverOK, nCover, time.Since(start).Seconds())
	for _, v := range violations {
		fmt.Println(v)
	}
	if engineErr {
		return 2
	}
	if len(violations) > 0 {
		return 1
	}
	return 0
}

func round2(f float64) float64 { return float64(int(f*100+0.5)) / 100 }

func sanitize(s string) string {
	r := strings.NewReplacer("/", "_", " ", "_", "*", "_", "(", "_", ")", "_", "$", "_", ":", "_", "\"", "_", "'", "_", "|", "_", "<", "_", ">", "_", "&", "_", ";", "_")
	out := r.Replace(s)
	if len(out) > 150 {
		out = out[:150]
	}
	return out
}
