package props

import (
	"fmt"
	"sort"

	"verif/internal/vc"
)

// prepareIRC wires the command table into the engine: registrations are read
// from the init functions, handlers inherit the template contract, the
// dynamic call in ProcessMessage is resolved against the template.
func prepareIRC(e *vc.Engine) ([]vc.Registration, error) {
	regs, err := e.ScanRegistrations("ircserver", "Commands")
	if err != nil {
		return nil, err
	}
	if len(regs) < 40 {
		return nil, fmt.Errorf("only %d command registrations found", len(regs))
	}
	if err := e.SynthesizeHandlerContracts(regs, "ircserver.handler"); err != nil {
		return nil, err
	}
	e.DynCallHook = e.HandlerDynHook(regs, "ircserver.handler", "ircserver.dispatch", "server_")
	return regs, nil
}

func handlerNames(regs []vc.Registration) []string {
	seen := map[string]bool{}
	var out []string
	for _, r := range regs {
		if r.Handler.Parent() != nil {
			continue
		}
		n := vc.ShortName(r.Handler)
		if !seen[n] {
			seen[n] = true
			out = append(out, n)
		}
	}
	sort.Strings(out)
	return out
}

// gateLemma: every registration's MinParams is at least what the handler's
// contract requires.
func gateLemma(e *vc.Engine, regs []vc.Registration) []StructResult {
	var out []StructResult
	for _, r := range regs {
		if r.Handler.Parent() != nil {
			continue
		}
		name := vc.ShortName(r.Handler)
		k := vc.ParamsBound(e.Specs.Contracts[name])
		ok := k >= 0 && r.MinParams >= k
		out = append(out, StructResult{
			Name:   fmt.Sprintf("ircserver.Commands[%s]/gate/MinParams>=%s.params", r.Name, name),
			OK:     ok,
			Detail: fmt.Sprintf("registration %q (in %s) has MinParams=%d, handler %s requires len(msg.Params) >= %d", r.Name, r.In, r.MinParams, name, k),
		})
	}
	return out
}

func PrepareIRCForUnit(e *vc.Engine) error {
	_, err := prepareIRC(e)
	return err
}

// gateLemmaUnits: for every registered handler, the dispatch in ProcessMessage
// establishes its precondition.
func gateLemmaUnits(e *vc.Engine, regs []vc.Registration) ([]*vc.Unit, error) {
	minP := map[string]int64{}
	fn := map[string]vc.Registration{}
	regNames := map[string][]string{}
	for _, r := range regs {
		if r.Handler.Parent() != nil {
			continue
		}
		n := vc.ShortName(r.Handler)
		regNames[n] = append(regNames[n], r.Name)
		if m, ok := minP[n]; !ok || r.MinParams < m {
			minP[n] = r.MinParams
		}
		fn[n] = r
	}
	var names []string
	for n := range minP {
		names = append(names, n)
	}
	sort.Strings(names)
	var us []*vc.Unit
	for _, n := range names {
		u, err := e.GateLemma(fn[n].Handler, minP[n], regNames[n], "ircserver.handler", "ircserver.dispatch", "server_")
		if err != nil {
			return nil, err
		}
		us = append(us, u)
	}
	return us, nil
}
