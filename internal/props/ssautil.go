package props

import (
	"golang.org/x/tools/go/ssa"
	"golang.org/x/tools/go/ssa/ssautil"
)

func allFuncs(prog *ssa.Program) map[*ssa.Function]bool { return ssautil.AllFunctions(prog) }

func fnPkgPath(fn *ssa.Function) string {
	for fn.Parent() != nil {
		fn = fn.Parent()
	}
	if fn.Pkg != nil {
		return fn.Pkg.Pkg.Path()
	}
	if fn.Object() != nil && fn.Object().Pkg() != nil {
		return fn.Object().Pkg().Path()
	}
	return ""
}
