package props

import (
	"sort"
	"strings"

	"golang.org/x/tools/go/ssa"
	"golang.org/x/tools/go/ssa/ssautil"

	"verif/internal/vc"
)

func allFuncs(prog *ssa.Program) map[*ssa.Function]bool { return ssautil.AllFunctions(prog) }

func fnPkgPath(fn *ssa.Function) string {
	for fn.Parent() != nil {
		fn = fn.Parent()
	}
	if fn.Pkg != nil {
		return fn.Pkg.Pkg.Path()
	}
	if fn.Object() != nil && fn.Object().Pkg() != nil {
		return fn.Object().Pkg().Path()
	}
	return ""
}

// contractClosure returns the functions with a (non-trusted) contract that are reachable through
// static calls from the given roots, going through functions without a contract (those are inlined
// into their callers by the generator). A function with a contract is verified modularly: its body
// is only checked if it is a unit itself, so a no-panic sweep must contain all of them.
func contractClosure(e *vc.Engine, roots []string) []string {
	seen := map[*ssa.Function]bool{}
	found := map[string]bool{}
	var work []*ssa.Function
	for _, r := range roots {
		if fn := e.Funcs[r]; fn != nil {
			work = append(work, fn)
		}
	}
	for len(work) > 0 {
		fn := work[len(work)-1]
		work = work[:len(work)-1]
		if seen[fn] {
			continue
		}
		seen[fn] = true
		for _, b := range fn.Blocks {
			for _, in := range b.Instrs {
				var callee *ssa.Function
				switch x := in.(type) {
				case ssa.CallInstruction:
					callee = x.Common().StaticCallee()
				}
				if mc, ok := in.(*ssa.MakeClosure); ok {
					callee, _ = mc.Fn.(*ssa.Function)
				}
				if callee == nil || len(callee.Blocks) == 0 || !strings.HasPrefix(fnPkgPath(callee), vc.RepoModule) {
					continue
				}
				name := vc.ShortName(callee)
				if ct := e.Specs.Contracts[name]; ct != nil && !ct.Trusted && callee.Parent() == nil {
					found[name] = true
				}
				work = append(work, callee)
			}
		}
	}
	var out []string
	for n := range found {
		out = append(out, n)
	}
	sort.Strings(out)
	return out
}
