package vc

import (
	"fmt"
	"go/token"
	"go/types"
	"sort"
	"strings"

	"golang.org/x/tools/go/ssa"
)

const maxInlineDepth = 4

// terminating external functions: the call never returns.
var terminators = map[string]bool{
	"log.Fatal": true, "log.Fatalf": true, "log.Fatalln": true,
	"log.Panic": true, "log.Panicf": true, "log.Panicln": true,
	"log.Logger.Fatal": true, "log.Logger.Fatalf": true, "log.Logger.Panicf": true,
	"glog.Fatal": true, "glog.Fatalf": true, "glog.Fatalln": true, "glog.Exitf": true,
	"os.Exit": true, "runtime.Goexit": true,
}

func (f *Frame) execCall(instr ssa.Instruction, c *ssa.CallCommon, st *State) *V {
	r := f.execCallInner(instr, c, st)
	f.lastCallRes = r
	if sc := c.StaticCallee(); sc != nil {
		f.anchorsAfterCall(sc.Name(), st)
		if sn := ShortName(sc); sn != "" && sn != sc.Name() {
			f.anchorsAfterCall(sn, st)
			if k := strings.Index(sn, "."); k >= 0 && strings.Count(sn, ".") >= 2 {
				f.anchorsAfterCall(sn[k+1:], st)
			}
		}
	} else if c.IsInvoke() {
		f.anchorsAfterCall(ifaceMethodName(c), st)
	}
	return r
}

func (f *Frame) execCallInner(instr ssa.Instruction, c *ssa.CallCommon, st *State) *V {
	u := f.u
	// builtins
	if b, ok := c.Value.(*ssa.Builtin); ok {
		return f.execBuiltin(instr, b, c, st)
	}
	var args []*V
	if c.IsInvoke() {
		recv := f.val(c.Value)
		f.nopanic(st, "nil-iface", instr.Pos(), not(eq(recv.T, intLit(0))), "method call on non-nil interface")
		args = append(args, recv)
	}
	for _, a := range c.Args {
		args = append(args, f.val(a))
	}
	var resT types.Type = c.Signature().Results()
	mkRes := func(vs []*V) *V {
		switch len(vs) {
		case 0:
			return nil
		case 1:
			return vs[0]
		}
		return &V{Typ: resT, F: vs}
	}
	if c.IsInvoke() {
		f.curCallArgs = args
		f.anchorsAtCall(instr, ifaceMethodName(c), st)
		name := ifaceMethodName(c)
		if ct := u.eng.Specs.Contracts[name]; ct != nil {
			return mkRes(f.applyContract(instr, ct, nil, c.Signature(), name, args, st))
		}
		return mkRes(f.defaultCall(instr, name, c.Signature(), args, st))
	}
	callee := c.StaticCallee()
	if callee != nil {
		f.curCallArgs = args
		f.anchorsAtCall(instr, callee.Name(), st)
		if sn := ShortName(callee); sn != "" && sn != callee.Name() {
			f.anchorsAtCall(instr, sn, st)
			if k := strings.Index(sn, "."); k >= 0 && strings.Count(sn, ".") >= 2 {
				f.anchorsAtCall(instr, sn[k+1:], st)
			}
		}
	}
	if callee == nil {
		fv := f.val(c.Value)
		if fv.Fn == nil {
			return mkRes(f.dynamicCall(instr, c, fv, args, st))
		}
		callee = fv.Fn.Fn.(*ssa.Function)
		return mkRes(f.inline(instr, callee, args, fv.Fn.Bind, st))
	}
	name := ShortName(callee)
	if !isRepoFunc(callee) && callee.Signature.Recv() != nil && len(args) > 0 && args[0].LV == nil && args[0].Fn == nil && args[0].Sl == nil {
		if _, isPtr := callee.Signature.Recv().Type().Underlying().(*types.Pointer); isPtr && args[0].T.Sort == SInt {
			// library methods dereference their receiver
			f.nopanic(st, "nil-recv", instr.Pos(), not(eq(args[0].T, intLit(0))), "receiver of "+name+" is not nil")
		}
	}
	if callee.Name() == "init" && callee.Synthetic != "" && callee.Pkg != nil && f.fn.Pkg != callee.Pkg {
		u.note("package initialiser of an imported package (" + callee.Pkg.Pkg.Path() + ") already ran and does not touch this package's variables")
		return nil
	}
	if terminators[name] {
		f.nopanic(st, "fatal", instr.Pos(), tFalse, name+" is not reached")
		st.reach = tFalse
		return mkRes(f.freshResults(st, c.Signature(), "dead"))
	}
	if ct := u.eng.Specs.Contracts[name]; ct != nil {
		return mkRes(f.applyContract(instr, ct, callee, c.Signature(), name, args, st))
	}
	if m := intrinsics[name]; m != nil {
		if r, ok := m(f, instr, args, st); ok {
			return mkRes(r)
		}
	}
	if isRepoFunc(callee) && len(callee.Blocks) > 0 {
		if f.depth >= maxInlineDepth {
			f.fail("inline depth exceeded at call to %s: give it a contract", name)
		}
		if f.onStack(callee) {
			f.fail("recursive call to %s needs a contract", name)
		}
		var bind []*V
		if mc, ok := c.Value.(*ssa.MakeClosure); ok {
			if cv := f.val(mc); cv != nil && cv.Fn != nil {
				bind = cv.Fn.Bind
			}
		}
		return mkRes(f.inline(instr, callee, args, bind, st))
	}
	return mkRes(f.defaultCall(instr, name, c.Signature(), args, st))
}

func (f *Frame) onStack(fn *ssa.Function) bool {
	for x := f; x != nil; x = x.parent {
		if x.fn == fn {
			return true
		}
	}
	return false
}

func ifaceMethodName(c *ssa.CallCommon) string {
	t := c.Value.Type()
	tn := typeKey(t)
	if n, ok := t.(*types.Named); ok {
		tn = n.Obj().Name()
		if n.Obj().Pkg() != nil {
			tn = n.Obj().Pkg().Name() + "." + tn
		}
	}
	return tn + "." + c.Method.Name()
}

func (f *Frame) freshResults(st *State, sig *types.Signature, hint string) []*V {
	var vs []*V
	for i := 0; i < sig.Results().Len(); i++ {
		vs = append(vs, f.u.freshVal(st, sig.Results().At(i).Type(), hint))
	}
	return vs
}

// dynamicCall handles a call through a function value that is not a known closure.
func (f *Frame) dynamicCall(instr ssa.Instruction, c *ssa.CallCommon, fv *V, args []*V, st *State) []*V {
	// a package-level function variable that only its initialiser assigns
	if ld, ok := c.Value.(*ssa.UnOp); ok {
		if g, ok := ld.X.(*ssa.Global); ok && f.u.eng.GlobalImmutable(g) {
			var target *ssa.Function
			switch iv := f.u.eng.globalInit[g].(type) {
			case *ssa.Function:
				target = iv
			case *ssa.MakeClosure:
				if fn, ok := iv.Fn.(*ssa.Function); ok && len(iv.Bindings) == 0 {
					target = fn
				}
			}
			if target != nil {
				if ct := f.u.eng.Specs.Contracts[ShortName(target)]; ct != nil {
					return f.applyContract(instr, ct, target, c.Signature(), ShortName(target), args, st)
				}
				return f.inline(instr, target, args, nil, st)
			}
		}
	}
	if h := f.u.eng.DynCallHook; h != nil {
		if r, ok := h(f, instr, c, fv, args, st); ok {
			return r
		}
	}
	// unknown callee: it may do anything to the heap (and is assumed not to panic)
	f.u.note("call through a function value in " + ShortName(f.fn) + " (" + c.Value.Name() + "): arbitrary effect on the heap assumed, no panic assumed")
	f.u.havocAll(st)
	if f.u.writeLog != nil {
		*f.u.writeLog = append(*f.u.writeLog, writeRec{key: "*"})
	}
	na := f.u.fresh("alloc", SInt)
	f.u.assume(st, app(SBool, ">=", na, st.alloc))
	st.alloc = na
	return f.freshResults(st, c.Signature(), "dyn")
}

func allScalar(vs []*V) bool {
	for _, v := range vs {
		if v.LV != nil || v.Fn != nil || v.Sl != nil {
			return false
		}
		if v.F != nil {
			if !allScalar(v.F) {
				return false
			}
			continue
		}
		switch v.Typ.Underlying().(type) {
		case *types.Pointer, *types.Map, *types.Chan, *types.Signature, *types.Interface:
			return false
		}
	}
	return true
}

// defaultCall models a callee without contract and without body: it does not
// write robustirc's heap and does not panic; when all arguments are scalars it
// is a function of its arguments (uninterpreted), otherwise its results are
// arbitrary.
func (f *Frame) defaultCall(instr ssa.Instruction, name string, sig *types.Signature, args []*V, st *State) []*V {
	u := f.u
	f.havocOutParams(instr, st)
	if sig.Results().Len() == 0 {
		u.note("dependency " + name + ": assumed not to panic and not to write robustirc state")
		return nil
	}
	if allScalar(args) && !u.eng.Nondet[name] {
		u.note("dependency " + name + ": assumed to be a total, deterministic function of its arguments (uninterpreted)")
		return u.ufResults("fn!"+name, sig, args, st)
	}
	u.note("dependency " + name + ": results arbitrary; assumed not to panic and not to write robustirc state")
	return f.freshResults(st, sig, name)
}

func (u *Unit) ufResults(fname string, sig *types.Signature, args []*V, st *State) []*V {
	var ats []T
	var asorts []Sort
	for _, a := range args {
		for _, l := range a.leaves() {
			ats = append(ats, l)
			asorts = append(asorts, l.Sort)
		}
	}
	var vs []*V
	for i := 0; i < sig.Results().Len(); i++ {
		rt := sig.Results().At(i).Type()
		ls := flatten(rt)
		var ts []T
		for _, l := range ls {
			fn := fname
			if sig.Results().Len() > 1 || len(ls) > 1 {
				fn = fmt.Sprintf("%s!%d%s", fname, i, l.Path)
			}
			q := u.declareFun(fn, asorts, l.Sort)
			if len(ats) == 0 {
				ts = append(ts, T{"(" + q + ")", l.Sort})
				ts[len(ts)-1] = T{q, l.Sort}
			} else {
				ts = append(ts, app(l.Sort, q, ats...))
			}
		}
		v := fromLeaves(rt, &ts)
		if st != nil {
			u.assumeTypeInv(st, v)
		}
		vs = append(vs, v)
	}
	return vs
}

// inline executes callee in a new frame sharing the unit and the state.
func (f *Frame) inline(instr ssa.Instruction, callee *ssa.Function, args []*V, bind []*V, st *State) []*V {
	u := f.u
	if len(callee.Blocks) == 0 {
		return f.defaultCall(instr, ShortName(callee), callee.Signature, args, st)
	}
	nf := &Frame{u: u, fn: callee, vals: map[ssa.Value]*V{}, depth: f.depth + 1, parent: f,
		anchor: f.anchor + "in " + ShortName(callee) + ": ", iters: map[ssa.Value]*iterInfo{}, callOrd: map[string]int{}, litOrd: map[string]int{}, params: map[string]*V{}}
	for i, p := range callee.Params {
		if i < len(args) {
			nf.vals[p] = args[i]
		}
	}
	for i, fv := range callee.FreeVars {
		if i < len(bind) {
			nf.vals[fv] = bind[i]
		}
	}
	saveExact := u.exact
	if ct := u.eng.Specs.Contracts[ShortName(callee)]; ct != nil && ct.Arith != "" {
		u.exact = ct.Arith == "exact"
	}
	res, out := nf.run(st)
	u.exact = saveExact
	// the shared state object continues with the callee's final state
	st.reach = out.reach
	st.heap = out.heap
	st.alloc = out.alloc
	if res == nil && callee.Signature.Results().Len() > 0 {
		return f.freshResults(st, callee.Signature, "noreturn")
	}
	return res
}

func (f *Frame) runDeferred(d *deferRec, st *State) {
	// Conditional execution: run on a copy guarded by d.guard, then merge.
	if d.guard.S == st.reach.S || d.guard.S == "true" {
		f.execCall(d.instr, d.call, st)
		return
	}
	run := st.clone()
	run.reach = and(st.reach, d.guard)
	f.execCall(d.instr, d.call, run)
	skip := st.clone()
	skip.reach = and(st.reach, not(d.guard))
	m := f.u.mergeStates([]edgeIn{{cond: run.reach, st: run}, {cond: skip.reach, st: skip}})
	st.reach, st.heap, st.alloc = m.reach, m.heap, m.alloc
}

// ---------------------------------------------------------------------------
// builtins

func (f *Frame) execBuiltin(instr ssa.Instruction, b *ssa.Builtin, c *ssa.CallCommon, st *State) *V {
	u := f.u
	var args []*V
	for _, a := range c.Args {
		args = append(args, f.val(a))
	}
	rt := types.Type(types.Typ[types.Int])
	if v, ok := instr.(ssa.Value); ok {
		rt = v.Type()
	}
	switch b.Name() {
	case "len":
		a := args[0]
		switch {
		case a.Sl != nil:
			return &V{Typ: rt, T: a.Sl.Len}
		case a.T.Sort == SStr:
			return &V{Typ: rt, T: strLen(a.T)}
		}
		switch t := a.Typ.Underlying().(type) {
		case *types.Map:
			mk := u.mapKeysOf(a.Typ)
			u.mapCardFacts(st, mk, a.T)
			return &V{Typ: rt, T: u.mapCard(st, mk, a.T)}
		case *types.Array:
			return &V{Typ: rt, T: intLit(t.Len())}
		case *types.Pointer:
			if at, ok := t.Elem().Underlying().(*types.Array); ok {
				return &V{Typ: rt, T: intLit(at.Len())}
			}
		case *types.Chan:
			r := u.fresh("chanlen", SInt)
			u.assume(st, app(SBool, ">=", r, intLit(0)))
			return &V{Typ: rt, T: r}
		}
		f.fail("len of %s", typeKey(a.Typ))
	case "cap":
		a := args[0]
		if a.Sl != nil {
			return &V{Typ: rt, T: a.Sl.Cap}
		}
		f.fail("cap of %s", typeKey(a.Typ))
	case "append":
		f.curCallArgs = args
		f.anchorsAt("call", "append", st)
		r := f.execAppend(instr, args, st, rt)
		// assert@after append#n: callres is the extended slice
		f.lastCallRes = r
		f.anchorsAfterCall("append", st)
		return r
	case "copy":
		return f.execCopy(instr, args, st, rt)
	case "delete":
		m := args[0]
		if path := f.ssaPath(c.Args[0]); path != "" {
			f.curCallArgs = []*V{args[1]}
			f.anchorsAt("delete", path, st)
		}
		mk := u.mapKeysOf(m.Typ)
		u.mapDelete(st, mk, m.T, u.keyTerm(args[1]))
		return nil
	case "print", "println":
		return nil
	case "recover":
		if f.recoverVal != nil {
			return f.recoverVal
		}
		r := u.fresh("recovered", SInt)
		return &V{Typ: rt, T: r}
	case "close":
		return nil
	case "min", "max":
		op := "<="
		if b.Name() == "max" {
			op = ">="
		}
		r := args[0].T
		for _, a := range args[1:] {
			r = ite(app(SBool, op, r, a.T), r, a.T)
		}
		return &V{Typ: rt, T: r}
	case "ssa:wrapnilchk":
		f.nopanic(st, "nil-deref", instr.Pos(), not(eq(args[0].T, intLit(0))), "receiver is not nil")
		return args[0]
	}
	f.fail("builtin %s", b.Name())
	return nil
}

func (f *Frame) execAppend(instr ssa.Instruction, args []*V, st *State, rt types.Type) *V {
	u := f.u
	s, t := args[0], args[1]
	et := rt.Underlying().(*types.Slice).Elem()
	if t.T.Sort == SStr {
		// append([]byte, string...)
		arr := u.newRef(st, "append")
		inner := arrSort(SInt, SInt)
		key := "E:" + typeKey(et)
		old := sel(u.heapGet(st, key, arrSort(SInt, inner)), s.Sl.Arr)
		cont := u.fresh("appended", inner)
		u.assume(st, T{fmt.Sprintf("(forall ((i!q Int)) (! (and (=> (and (<= 0 i!q) (< i!q %s)) (= (select %s i!q) (select %s (+ %s i!q)))) (=> (and (<= %s i!q) (< i!q (+ %s (s.len %s)))) (= (select %s i!q) (s.at %s (- i!q %s))))) :pattern ((select %s i!q))))",
			s.Sl.Len.S, cont.S, old.S, s.Sl.Off.S, s.Sl.Len.S, s.Sl.Len.S, t.T.S, cont.S, t.T.S, s.Sl.Len.S, cont.S), SBool})
		u.write(st, key, arr, func(h T) T { return sto(h, arr, cont) }, arrSort(SInt, inner))
		nl := u.define("applen", app(SInt, "+", s.Sl.Len, strLen(t.T)))
		ncap := u.fresh("appcap", SInt)
		u.assume(st, app(SBool, ">=", ncap, nl))
		return &V{Typ: rt, Sl: &SliceParts{arr, intLit(0), nl, ncap}}
	}
	u.note("append: the result never aliases the backing array of its first argument (no caller relies on in-place growth)")
	arr := u.newRef(st, "append")
	nl := u.define("applen", app(SInt, "+", s.Sl.Len, t.Sl.Len))
	for _, l := range flatten(et) {
		key := "E:" + typeKey(et) + l.Path
		inner := arrSort(SInt, l.Sort)
		h := u.heapGet(st, key, arrSort(SInt, inner))
		olds := sel(h, s.Sl.Arr)
		oldt := sel(h, t.Sl.Arr)
		var cont T
		if t.Sl.Len.S == "1" && s.Sl.Off.S == "0" {
			// common case: append(s, x) with s produced by make/append/literal
			cont = sto(olds, s.Sl.Len, sel(oldt, t.Sl.Off))
		} else if t.Sl.Len.S == "1" {
			cont = u.fresh("appended", inner)
			iq := T{"i!q", SInt}
			pat2 := ""
			off := s.Sl.Off
			if s.Sl.Off.S != "0" {
				// a position of the old slice that is mentioned anywhere also names the copied element. The
				// old backing array and offset are given names of their own: as plain terms they would occur
				// under the binder only (the offset of a slice held in a struct field is a heap read), where
				// E-matching does not see them, and the trigger would never fire.
				oldrow := u.fresh("oldrow", inner)
				u.assume(st, eq(oldrow, olds))
				olds = oldrow
				off = u.fresh("oldoff", SInt)
				u.assume(st, eq(off, s.Sl.Off))
				pat2 = " :pattern (" + sel(olds, u.sidx(off, iq)).S + ")"
			}
			u.assume(st, T{fmt.Sprintf("(forall ((i!q Int)) (! (=> (and (<= 0 i!q) (< i!q %s)) (= (select %s i!q) (select %s %s))) :pattern ((select %s i!q))%s))",
				s.Sl.Len.S, cont.S, olds.S, u.sidx(off, iq).S, cont.S, pat2), SBool})
			u.assume(st, eq(sel(cont, s.Sl.Len), sel(oldt, t.Sl.Off)))
		} else {
			cont = u.fresh("appended", inner)
			iq := T{"i!q", SInt}
			u.assume(st, T{fmt.Sprintf("(forall ((i!q Int)) (! (and (=> (and (<= 0 i!q) (< i!q %s)) (= (select %s i!q) (select %s %s))) (=> (and (<= %s i!q) (< i!q %s)) (= (select %s i!q) (select %s %s)))) :pattern ((select %s i!q))))",
				s.Sl.Len.S, cont.S, olds.S, u.sidx(s.Sl.Off, iq).S, s.Sl.Len.S, nl.S, cont.S, oldt.S, u.sidx(t.Sl.Off, app(SInt, "-", iq, s.Sl.Len)).S, cont.S), SBool})
		}
		u.write(st, key, arr, func(h T) T { return sto(h, arr, cont) }, arrSort(SInt, inner))
	}
	ncap := u.fresh("appcap", SInt)
	u.assume(st, app(SBool, ">=", ncap, nl))
	return &V{Typ: rt, Sl: &SliceParts{arr, intLit(0), nl, ncap}}
}

func (f *Frame) execCopy(instr ssa.Instruction, args []*V, st *State, rt types.Type) *V {
	u := f.u
	dst, src := args[0], args[1]
	var n T
	if src.T.Sort == SStr {
		n = ite(app(SBool, "<=", dst.Sl.Len, strLen(src.T)), dst.Sl.Len, strLen(src.T))
	} else {
		n = ite(app(SBool, "<=", dst.Sl.Len, src.Sl.Len), dst.Sl.Len, src.Sl.Len)
	}
	n = u.define("copyn", n)
	et := dst.Typ.Underlying().(*types.Slice).Elem()
	for _, l := range flatten(et) {
		key := "E:" + typeKey(et) + l.Path
		inner := arrSort(SInt, l.Sort)
		h := u.heapGet(st, key, arrSort(SInt, inner))
		oldd := sel(h, dst.Sl.Arr)
		cont := u.fresh("copied", inner)
		var srcAt string
		if src.T.Sort == SStr {
			srcAt = fmt.Sprintf("(s.at %s (- i!q %s))", src.T.S, dst.Sl.Off.S)
		} else {
			srcAt = fmt.Sprintf("(select %s (+ %s (- i!q %s)))", sel(h, src.Sl.Arr).S, src.Sl.Off.S, dst.Sl.Off.S)
		}
		u.assume(st, T{fmt.Sprintf("(forall ((i!q Int)) (! (= (select %s i!q) (ite (and (<= %s i!q) (< i!q (+ %s %s))) %s (select %s i!q))) :pattern ((select %s i!q))))",
			cont.S, dst.Sl.Off.S, dst.Sl.Off.S, n.S, srcAt, oldd.S, cont.S), SBool})
		u.write(st, key, dst.Sl.Arr, func(h T) T { return sto(h, dst.Sl.Arr, cont) }, arrSort(SInt, inner))
	}
	return &V{Typ: rt, T: n}
}

// ---------------------------------------------------------------------------
// contracts at call sites

// footprint item of a modifies clause
type hk struct {
	key  string
	sort Sort
	// for keys of a struct type that is embedded in the type named in a footprint: the
	// embedding (struct key, field) through which the object is reached ("" = direct field)
	embOf [2]string
}

type fpItem struct {
	keys  []hk // heap keys (all leaves)
	bases []T      // restricted to these outer indexes (nil = whole array)
	fresh bool     // "new T": only freshly allocated objects
	all   bool     // "*"
	except bool    // "!T": exception to "*"
}

func (f *Frame) applyContract(instr ssa.Instruction, ct *Contract, callee *ssa.Function, sig *types.Signature, name string, args []*V, st *State) []*V {
	u := f.u
	env := map[string]*V{}
	var pnames []string
	if callee != nil && len(callee.Params) > 0 {
		for i, p := range callee.Params {
			if i < len(args) {
				env[p.Name()] = args[i]
				pnames = append(pnames, p.Name())
			}
		}
		if callee.Signature.Recv() != nil && len(args) > 0 {
			env["recv"] = args[0]
		}
	} else {
		// interface method or body-less: receiver is "recv", params by signature names
		k := 0
		if sig.Recv() != nil || len(args) == sig.Params().Len()+1 {
			env["recv"] = args[0]
			k = 1
		}
		for i := 0; i < sig.Params().Len() && k+i < len(args); i++ {
			n := sig.Params().At(i).Name()
			if n == "" || n == "_" {
				n = fmt.Sprintf("arg%d", i)
			}
			env[n] = args[k+i]
		}
	}
	for i, a := range args {
		env[fmt.Sprintf("arg%d", i)] = a
	}
	pkg := f.specPkg(ct, callee)
	pre := st.clone()
	ctx := &SpecCtx{u: u, st: st, old: pre, env: env, pkg: pkg, fr: f}
	ord := f.callOrd[name]
	f.callOrd[name] = ord + 1
	for i, r := range ct.Requires {
		g := ctx.evalBool(r.E)
		label := r.Label
		if label == "" {
			label = fmt.Sprintf("%d", i)
		}
		u.oblige(st, "pre", fmt.Sprintf("%scall %s#%d/requires %s", f.anchor, name, ord, label), g, "precondition of "+name+": "+r.Src)
	}
	if ct.Trusted {
		u.note("assumed contract of " + name + " (" + ct.Origin + ")")
	}
	if ct.Terminates {
		st.reach = tFalse
		return f.freshResults(st, sig, "dead")
	}
	// havoc the footprint (a callee may always allocate)
	if !ct.HasMod && !ct.Pure {
		na := u.fresh("alloc", SInt)
		u.assume(st, app(SBool, ">=", na, pre.alloc))
		st.alloc = na
	}
	f.havocFootprint(ct, ctx, pre, st)
	// results
	var res []*V
	if ct.Pure && sig.Results().Len() > 0 {
		res = u.ufResults("fn!"+name, sig, args, st)
	} else {
		res = f.freshResults(st, sig, "ret!"+name)
	}
	bindResults(env, sig, res)
	for _, e := range ct.Ensures {
		if strings.HasPrefix(e.Label, "assumed-") {
			u.note("assumed postcondition " + e.Label + " of " + name + ": " + e.Src)
		}
		u.assume(st, ctx.evalBool(e.E))
	}
	return res
}

func bindResults(env map[string]*V, sig *types.Signature, res []*V) {
	for i, r := range res {
		env[fmt.Sprintf("result%d", i)] = r
		if n := sig.Results().At(i).Name(); n != "" && n != "_" {
			env[n] = r
		}
	}
	if len(res) == 1 {
		env["result"] = res[0]
	}
}

func (f *Frame) specPkg(ct *Contract, callee *ssa.Function) *types.Package {
	if callee != nil {
		if p := pkgOf(callee); p != nil {
			return p
		}
	}
	return pkgOf(f.fn)
}

// parseFootprint evaluates the modifies clause in the pre-state.
func (f *Frame) parseFootprint(ct *Contract, ctx *SpecCtx, pre *State) []fpItem {
	u := f.u
	var items []fpItem
	octx := *ctx
	octx.st = pre
	for _, m := range ct.Modifies {
		if m == "*" {
			items = append(items, fpItem{all: true})
			continue
		}
		if strings.HasPrefix(m, "!") {
			// exception to "*": objects of this type that existed before keep their contents
			keys := u.keysForTypeSpec(strings.TrimSpace(m[1:]), ctx.pkg)
			if len(keys) == 0 {
				// an exception that names a type of a package which is not loaded (or which this package
				// cannot name, such as main.FSM seen from internal/ircserver): no object of that type is
				// reachable here, so there is nothing to keep
				tn := strings.TrimSpace(m[1:])
				if k := strings.Index(tn, "."); k > 0 && !strings.Contains(tn, "(") && u.eng.resolveType(tn, ctx.pkg) == nil {
					u.note("modifies exception " + m + ": type not loaded in this check, nothing to keep")
					continue
				}
				panic(unsupported("modifies: cannot resolve " + m))
			}
			items = append(items, fpItem{keys: keys, except: true})
			continue
		}
		fresh := false
		if strings.HasPrefix(m, "new ") {
			fresh = true
			m = strings.TrimSpace(m[4:])
		}
		head := m
		var baseExpr string
		if strings.HasSuffix(m, "]") {
			// the bracket group that closes at the end of the item
			depth := 0
			for i := len(m) - 1; i >= 0; i-- {
				if m[i] == ']' {
					depth++
				} else if m[i] == '[' {
					depth--
					if depth == 0 {
						if i > 0 && !strings.HasSuffix(strings.TrimSpace(m[:i]), "map") {
							head = strings.TrimSpace(m[:i])
							baseExpr = m[i+1 : len(m)-1]
						} else if strings.TrimSpace(m[:i]) == "map" {
							head = "map"
							baseExpr = m[i+1 : len(m)-1]
						}
						break
					}
				}
			}
		}
		var it fpItem
		it.fresh = fresh
		switch head {
		case "map":
			e, err := ParseExpr(baseExpr)
			if err != nil {
				panic(unsupported("modifies " + m + ": " + err.Error()))
			}
			mv := octx.eval(e)
			it.keys = u.mapHKs(mv.Typ)
			it.bases = []T{mv.T}
		case "elems":
			e, err := ParseExpr(baseExpr)
			if err != nil {
				panic(unsupported("modifies " + m + ": " + err.Error()))
			}
			sv := octx.eval(e)
			et := sv.Typ.Underlying().(*types.Slice).Elem()
			it.keys = u.elemHKs(et)
			it.bases = []T{sv.Sl.Arr}
		default:
			// Type.field, Type (all fields), maps(Type), elemsof(Type)
			keys, embf := u.keysForTypeSpecEmb(head, ctx.pkg)
			if len(keys) == 0 {
				panic(unsupported("modifies: cannot resolve " + m))
			}
			it.keys = keys
			if baseExpr != "" {
				for _, be := range splitTop(baseExpr) {
					e, err := ParseExpr(be)
					if err != nil {
						panic(unsupported("modifies " + m + ": " + err.Error()))
					}
					b := octx.eval(e).T
					if embf[0] != "" {
						b = u.emb(embf[0], embf[1], b)
					}
					it.bases = append(it.bases, b)
				}
			}
		}
		items = append(items, it)
	}
	return items
}

func splitTop(s string) []string {
	var out []string
	depth := 0
	last := 0
	for i, c := range s {
		switch c {
		case '(', '[':
			depth++
		case ')', ']':
			depth--
		case ',':
			if depth == 0 {
				out = append(out, strings.TrimSpace(s[last:i]))
				last = i + 1
			}
		}
	}
	out = append(out, strings.TrimSpace(s[last:]))
	return out
}

func (u *Unit) mapHKs(t types.Type) []hk {
	mk := u.mapKeysOf(t)
	keys := []hk{{key: mk.dom, sort: arrSort(SInt, arrSort(mk.ks, SBool))}, {key: mk.card, sort: arrSort(SInt, SInt)}}
	for _, l := range flatten(mk.vt) {
		keys = append(keys, hk{key: mk.val + l.Path, sort: arrSort(SInt, arrSort(mk.ks, l.Sort))})
	}
	return keys
}

func (u *Unit) elemHKs(et types.Type) []hk {
	var keys []hk
	for _, l := range flatten(et) {
		keys = append(keys, hk{key: "E:" + typeKey(et) + l.Path, sort: arrSort(SInt, arrSort(SInt, l.Sort))})
	}
	return keys
}

// keysForTypeSpec resolves "Type.field" / "Type" / "maptype(T)" / "elemtype(T)" to heap keys.
func (u *Unit) keysForTypeSpec(spec string, pkg *types.Package) []hk {
	k, _ := u.keysForTypeSpecEmb(spec, pkg)
	return k
}

// keysForTypeSpecEmb also reports, for "Type.field" where the field is an
// embedded struct or array, the emb function through which bases must be mapped.
func (u *Unit) keysForTypeSpecEmb(spec string, pkg *types.Package) ([]hk, [2]string) {
	var none [2]string
	if !strings.Contains(spec, "(") {
		parts := strings.Split(spec, ".")
		for n := len(parts) - 1; n >= 1; n-- {
			t := u.eng.resolveType(strings.Join(parts[:n], "."), pkg)
			if t == nil {
				continue
			}
			st := structOf(t)
			if st == nil || len(parts[n:]) != 1 {
				continue
			}
			for i := 0; i < st.NumFields(); i++ {
				if st.Field(i).Name() == parts[n] {
					ft := st.Field(i).Type()
					if !isTime(ft) && !isOpaqueArr(ft) {
						switch ft.Underlying().(type) {
						case *types.Struct, *types.Array:
							return u.fieldKeys(t, st.Field(i)), [2]string{structKey(t), parts[n]}
						}
					}
				}
			}
		}
	}
	return u.keysForTypeSpecPlain(spec, pkg), none
}

func (u *Unit) keysForTypeSpecPlain(spec string, pkg *types.Package) []hk {
	if strings.HasPrefix(spec, "maptype(") && strings.HasSuffix(spec, ")") {
		t := u.eng.resolveType(spec[len("maptype("):len(spec)-1], pkg)
		if t == nil {
			return nil
		}
		return u.mapHKs(t)
	}
	if strings.HasPrefix(spec, "elemtype(") && strings.HasSuffix(spec, ")") {
		t := u.eng.resolveType(spec[len("elemtype("):len(spec)-1], pkg)
		if t == nil {
			return nil
		}
		return u.elemHKs(t)
	}
	if strings.HasPrefix(spec, "celltype(") && strings.HasSuffix(spec, ")") {
		t := u.eng.resolveType(spec[len("celltype("):len(spec)-1], pkg)
		if t == nil {
			return nil
		}
		var keys []hk
		for _, l := range flatten(t) {
			keys = append(keys, hk{key: "C:" + typeKey(t) + l.Path, sort: arrSort(SInt, l.Sort)})
		}
		return keys
	}
	// Type or Type.field (Type may be pkg.Type)
	parts := strings.Split(spec, ".")
	for n := len(parts) - 1; n >= 1; n-- {
		// ghost field of a named type (struct or interface)
		if t := u.eng.resolveType(strings.Join(parts[:n], "."), pkg); t != nil && len(parts[n:]) == 1 {
			if gi := u.eng.ghostOf(t, parts[n]); gi != nil {
				return []hk{{key: gi.key, sort: gi.sort}}
			}
		}
	}
	for n := len(parts); n >= 1; n-- {
		t := u.eng.resolveType(strings.Join(parts[:n], "."), pkg)
		if t == nil {
			continue
		}
		st := structOf(t)
		if st == nil {
			continue
		}
		rest := parts[n:]
		if len(rest) == 0 {
			return u.structKeys(t)
		}
		if len(rest) == 1 {
			for i := 0; i < st.NumFields(); i++ {
				if st.Field(i).Name() == rest[0] {
					return u.fieldKeys(t, st.Field(i))
				}
			}
		}
	}
	return nil
}

func (u *Unit) structKeys(t types.Type) []hk {
	st := structOf(t)
	var keys []hk
	for i := 0; i < st.NumFields(); i++ {
		keys = append(keys, u.fieldKeys(t, st.Field(i))...)
	}
	return keys
}

func (u *Unit) fieldKeys(t types.Type, fld *types.Var) []hk {
	ft := fld.Type()
	if !isTime(ft) && !isOpaqueArr(ft) {
		switch x := ft.Underlying().(type) {
		case *types.Struct:
			ks := u.structKeys(ft)
			for i := range ks {
				if ks[i].embOf[0] == "" {
					ks[i].embOf = [2]string{structKey(t), fld.Name()}
				}
			}
			return ks
		case *types.Array:
			es, _ := scalarSort(x.Elem())
			return []hk{{key: "E:" + typeKey(x.Elem()), sort: arrSort(SInt, arrSort(SInt, es)), embOf: [2]string{structKey(t), fld.Name()}}}
		}
	}
	var keys []hk
	for _, l := range flatten(ft) {
		keys = append(keys, hk{key: "F:" + structKey(t) + "." + fld.Name() + l.Path, sort: arrSort(SInt, l.Sort)})
	}
	return keys
}

// kindCond restricts r!q to the objects a (possibly embedded) key belongs to.
func (u *Unit) kindCond(k hk) string {
	if k.embOf[0] == "" {
		return "true"
	}
	return fmt.Sprintf("(= (embkind r!q) %d)", u.embTag(k.embOf[0], k.embOf[1]))
}

func (f *Frame) havocFootprint(ct *Contract, ctx *SpecCtx, pre, st *State) {
	u := f.u
	if !ct.HasMod {
		return
	}
	items := f.parseFootprint(ct, ctx, pre)
	// alloc may grow
	na := u.fresh("alloc", SInt)
	u.assume(st, app(SBool, ">=", na, pre.alloc))
	st.alloc = na
	byKey := map[string][]fpItem{}
	sorts := map[string]Sort{}
	all := false
	var excepted []hk
	for _, it := range items {
		if it.all {
			all = true
		}
		if it.except {
			excepted = append(excepted, it.keys...)
			continue
		}
		for _, k := range it.keys {
			byKey[k.key] = append(byKey[k.key], it)
			sorts[k.key] = k.sort
		}
	}
	if all {
		olds := map[string]T{}
		for _, k := range excepted {
			olds[k.key] = u.heapGet(pre, k.key, k.sort)
		}
		cp := ""
		if k := strings.Index(ct.Func, "."); k > 0 {
			cp = ct.Func[:k]
		}
		u.havocAllFor(st, cp)
		done := map[string]T{}
		for _, k := range excepted {
			if u.eng.LockMode && (strings.HasPrefix(k.key, "F:sync.RWMutex.") || k.key == "F:sync.Mutex.sema") {
				continue // kept as a whole by havocAll
			}
			nh, ok := done[k.key]
			if !ok {
				nh = u.heapHavoc(st, k.key, k.sort)
				done[k.key] = nh
			}
			u.assume(st, T{fmt.Sprintf("(forall ((r!q Int)) (! (=> (and (<= (root r!q) %s) %s) (= (select %s r!q) (select %s r!q))) :pattern ((select %s r!q))))", pre.alloc.S, u.kindCond(k), nh.S, olds[k.key].S, nh.S), SBool})
		}
		if u.writeLog != nil {
			*u.writeLog = append(*u.writeLog, writeRec{key: "*", except: excepted})
		}
		// ghost fields listed next to "*" are havocked like in a plain footprint (below)
		for k := range byKey {
			if !isGhostKey(k) {
				delete(byKey, k)
			}
		}
		if len(byKey) == 0 {
			return
		}
	}
	var keys []string
	for k := range byKey {
		keys = append(keys, k)
	}
	sort.Strings(keys)
	for _, k := range keys {
		srt := sorts[k]
		old := u.heapGet(pre, k, srt)
		nh := u.heapHavoc(st, k, srt)
		whole := false
		var bases []T
		for _, it := range byKey[k] {
			if it.bases == nil && !it.fresh {
				whole = true
			}
			bases = append(bases, it.bases...)
		}
		if u.writeLog != nil {
			if whole {
				*u.writeLog = append(*u.writeLog, writeRec{key: k, sort: srt, whole: true})
			}
			for _, b := range bases {
				*u.writeLog = append(*u.writeLog, writeRec{key: k, base: b, sort: srt})
			}
			if !whole && len(bases) == 0 {
				*u.writeLog = append(*u.writeLog, writeRec{key: k, sort: srt, whole: true})
			}
		}
		if whole {
			continue
		}
		var excl []string
		for _, b := range bases {
			excl = append(excl, fmt.Sprintf("(not (= r!q %s))", b.S))
		}
		cond := fmt.Sprintf("(<= (root r!q) %s)", pre.alloc.S)
		if len(excl) > 0 {
			cond = "(and " + cond + " " + strings.Join(excl, " ") + ")"
		}
		u.assume(st, T{fmt.Sprintf("(forall ((r!q Int)) (! (=> %s (= (select %s r!q) (select %s r!q))) :pattern ((select %s r!q))))", cond, nh.S, old.S, nh.S), SBool})
	}
}

// havocAll forgets the whole heap except iterator state and immutable globals.
// noCallbackPkgs: repo packages whose functions are never handed a function value of package main
// (no function-typed parameters or fields): they cannot write the package-level variables of package
// main, which no other package can name.
var noCallbackPkgs = map[string]bool{"ircserver": true, "outputstream": true, "raftstore": true, "robust": true, "config": true, "raftlog": true}

func (u *Unit) havocAll(st *State) { u.havocAllFor(st, "") }

// havocAllFor: calleePkg is the package name of the callee whose "modifies *" is applied ("" = unknown).
func (u *Unit) havocAllFor(st *State, calleePkg string) {
	nh := map[string]T{}
	if noCallbackPkgs[calleePkg] {
		// make sure every scalar package-level variable of main is present in the heap map
		for _, sp := range u.eng.SSAPkgs {
			if sp == nil || sp.Pkg.Name() != "main" {
				continue
			}
			for _, m := range sp.Members {
				g, ok := m.(*ssa.Global)
				if !ok {
					continue
				}
				func() {
					defer func() { recover() }()
					p := u.globalPtr(g)
					if p.LV != nil {
						(&Frame{u: u}).load(st, p)
						for _, l := range flatten(p.LV.Typ) {
							if _, ok := st.heap[p.LV.Key+l.Path]; !ok {
								st.heap[p.LV.Key+l.Path] = u.heapGet(st, p.LV.Key+l.Path, arrSort(SInt, l.Sort))
							}
						}
					}
				}()
			}
		}
		kept := false
		for k, v := range st.heap {
			if strings.HasPrefix(k, "G:main.") {
				nh[k] = v
				kept = true
			}
		}
		if kept {
			u.note("package-level variables of package main are not written by functions of package " + calleePkg + " (main cannot be imported, and " + calleePkg + " is handed no function value)")
		}
	}
	// ghost fields change only through contracts that list them: "everything" means every location of the program
	for _, g := range u.eng.ghostKeys() {
		u.heapGet(st, g.key, g.sort)
		if _, ok := st.heap[g.key]; !ok {
			st.heap[g.key] = u.heapGet(st, g.key, g.sort)
		}
	}
	for k, v := range st.heap {
		if isGhostKey(k) {
			nh[k] = v
			continue
		}
		if strings.HasPrefix(k, "IT:") || (u.eng.LockMode && (strings.HasPrefix(k, "F:sync.RWMutex.") || k == "F:sync.Mutex.sema")) {
			// iterator state; with lock tracking: which mutexes this goroutine holds is not changed by callees
			nh[k] = v
		}
	}
	if u.eng.LockMode {
		for _, k := range []string{"F:sync.RWMutex.writerSem", "F:sync.RWMutex.readerSem", "F:sync.Mutex.sema"} {
			nh[k] = u.heapGet(st, k, arrSort(SInt, SInt))
		}
	}
	snap := epochSnap{heap: st.heap, prev: st.epoch, preserve: append([]T{}, u.localRefs...)}
	st.heap = nh
	st.epoch = u.newEpoch(nil)
	if u.epochSnaps == nil {
		u.epochSnaps = map[int]epochSnap{}
	}
	u.epochSnaps[st.epoch] = snap
}

var _ = token.NoPos

// pureAxiom emits, once per unit, the universally quantified contract of a
// pure function: forall args. requires ==> ensures[result := fn(args)].
func (u *Unit) pureAxiom(name string, callee *ssa.Function, sig *types.Signature, ct *Contract, pkg *types.Package) {
	if ct == nil || !ct.Pure || len(ct.Ensures) == 0 || u.declared["pureax:"+name] {
		return
	}
	u.declared["pureax:"+name] = true
	env := map[string]*V{}
	var decls []string
	var args []*V
	bind := func(pname string, t types.Type) {
		u.nbind++
		var ts []T
		for _, l := range flatten(t) {
			n := quoteSym(fmt.Sprintf("%s!a%d%s", pname, u.nbind, l.Path))
			decls = append(decls, fmt.Sprintf("(%s %s)", n, l.Sort))
			ts = append(ts, T{n, l.Sort})
		}
		v := fromLeaves(t, &ts)
		env[pname] = v
		env[fmt.Sprintf("arg%d", len(args))] = v
		args = append(args, v)
	}
	if callee != nil && len(callee.Params) > 0 {
		for i, p := range callee.Params {
			bind(p.Name(), p.Type())
			if i == 0 && callee.Signature.Recv() != nil {
				env["recv"] = env[p.Name()]
			}
		}
	} else {
		if sig.Recv() != nil {
			bind("recv", sig.Recv().Type())
		}
		for i := 0; i < sig.Params().Len(); i++ {
			n := sig.Params().At(i).Name()
			if n == "" || n == "_" {
				n = fmt.Sprintf("p%d", i)
			}
			bind(n, sig.Params().At(i).Type())
		}
	}
	res := u.ufResults("fn!"+name, sig, args, nil)
	bindResults(env, sig, res)
	st := &State{reach: tTrue, heap: map[string]T{}, alloc: intLit(0)}
	ctx := &SpecCtx{u: u, st: st, old: st, env: env, pkg: pkg}
	var pre, post []T
	for _, r := range ct.Requires {
		pre = append(pre, ctx.evalBool(r.E))
	}
	for _, e := range ct.Ensures {
		post = append(post, ctx.evalBool(e.E))
	}
	body := implies(and(pre...), and(post...))
	if len(decls) == 0 {
		u.emitFact(body)
		return
	}
	pat := res[0].leaves()[0]
	u.emitDecl(fmt.Sprintf("(assert (forall (%s) (! %s :pattern (%s))))", strings.Join(decls, " "), body.S, pat.S))
}

// anchorsAtCall handles `assert@call <name>#<n> : expr` and `assume@call ...`
// clauses of the function under contract: they are evaluated immediately
// before the n-th call (in execution order of the VC generator) of a callee
// with that name.
func (f *Frame) anchorsAtCall(instr ssa.Instruction, calleeName string, st *State) {
	f.anchorsAt("call", calleeName, st)
}

// anchorsAt evaluates the assert@/assume@ clauses anchored at "<kind> <name>#<n>".
func (f *Frame) anchorsAt(kind, calleeName string, st *State) {
	if !f.top || f.contract == nil || len(f.contract.Asserts) == 0 {
		return
	}
	u := f.u
	if f.anchorOrd == nil {
		f.anchorOrd = map[string]int{}
	}
	n := f.anchorOrd[kind+" "+calleeName]
	f.anchorOrd[kind+" "+calleeName] = n + 1
	for _, a := range f.contract.Asserts {
		want := fmt.Sprintf("%s %s#%d", kind, calleeName, n)
		if calleeName == "" {
			want = fmt.Sprintf("%s #%d", kind, n)
		}
		if a.Anchor != want && !(a.Anchor == kind+" "+calleeName+"#*") {
			continue
		}
		f.usedAnchors[a.Anchor] = true
		ctx := f.specCtxAt(st, f.curBlock, f.curIdx)
		for k, av := range f.curCallArgs {
			ctx.env[fmt.Sprintf("callarg%d", k)] = av
		}
		label := a.Label
		if label == "" {
			label = "0"
		}
		if a.Assume {
			u.assume(st, ctx.evalBool(a.E))
			u.note("assumed at " + ShortName(f.fn) + " " + want + ": " + a.Src)
			continue
		}
		if imp, ok := a.E.(*EBin); ok && imp.Op == "==>" && !strings.HasSuffix(a.Anchor, "#*") {
			u.coverCond(st, "antecedent of "+want+"/"+label, ctx.evalBool(imp.X))
		}
		g := ctx.evalGoal(a.E)
		u.oblige(st, "assert-noassume", f.anchor+want+"/"+label, g, "at "+want+": "+a.Src)
		u.assume(st, ctx.evalBool(a.E))
	}
}

// anchorsAfterCall handles `assert@after <name>#<n> : expr` (and assume@after):
// evaluated right after the n-th call of a callee with that name returned.
func (f *Frame) anchorsAfterCall(calleeName string, st *State) {
	if !f.top || f.contract == nil || len(f.contract.Asserts) == 0 {
		return
	}
	u := f.u
	if f.afterOrd == nil {
		f.afterOrd = map[string]int{}
	}
	n := f.afterOrd[calleeName]
	f.afterOrd[calleeName] = n + 1
	for _, a := range f.contract.Asserts {
		want := fmt.Sprintf("after %s#%d", calleeName, n)
		if a.Anchor != want && a.Anchor != "after "+calleeName+"#*" {
			continue
		}
		f.usedAnchors[a.Anchor] = true
		ctx := f.specCtxAt(st, f.curBlock, f.curIdx+1)
		// the value(s) the call returned: callres, or callres0, callres1, ... for several results
		if r := f.lastCallRes; r != nil {
			if _, isTuple := r.Typ.(*types.Tuple); isTuple && r.F != nil {
				for k, rv := range r.F {
					ctx.env[fmt.Sprintf("callres%d", k)] = rv
				}
			} else {
				ctx.env["callres"] = r
			}
		}
		label := a.Label
		if label == "" {
			label = "0"
		}
		if a.Assume {
			u.assume(st, ctx.evalBool(a.E))
			u.note("assumed at " + ShortName(f.fn) + " " + want + ": " + a.Src)
			continue
		}
		if imp, ok := a.E.(*EBin); ok && imp.Op == "==>" && !strings.HasSuffix(a.Anchor, "#*") {
			u.coverCond(st, "antecedent of "+want+"/"+label, ctx.evalBool(imp.X))
		}
		u.oblige(st, "assert-noassume", f.anchor+want+"/"+label, ctx.evalGoal(a.E), "at "+want+": "+a.Src)
		u.assume(st, ctx.evalBool(a.E))
	}
}

// havocOutParams: a dependency that is handed the address of a local variable (json/proto/toml
// decoders, Sscanf, ...) or a locally made buffer may fill it in: the pointee becomes arbitrary.
func (f *Frame) havocOutParams(instr ssa.Instruction, st *State) {
	ci, ok := instr.(ssa.CallInstruction)
	if !ok {
		return
	}
	u := f.u
	for _, a := range ci.Common().Args {
		v := a
		if mi, ok := v.(*ssa.MakeInterface); ok {
			v = mi.X
		}
		switch x := v.(type) {
		case *ssa.Alloc:
			if x.Parent() != f.fn {
				continue
			}
			pv, ok := f.vals[x]
			if !ok || pv.LV != nil {
				continue
			}
			et := x.Type().(*types.Pointer).Elem()
			if at, isArr := et.Underlying().(*types.Array); isArr && !isTime(et) {
				if _, sc := scalarSort(at.Elem()); sc {
					for _, l := range flatten(at.Elem()) {
						key := "E:" + typeKey(at.Elem()) + l.Path
						inner := arrSort(SInt, l.Sort)
						fresh := u.fresh("out", inner)
						ref := pv.T
						u.write(st, key, ref, func(h T) T { return sto(h, ref, fresh) }, arrSort(SInt, inner))
					}
				}
				continue
			}
			nv := u.freshVal(st, et, "out!"+x.Name())
			u.storeObj(st, et, pv.T, nv)
			u.note("a dependency that receives the address of a local variable may overwrite it (" + describeCall(ci.Common()) + ")")
		case *ssa.Slice:
			// a slice of a local array or of a locally made slice: contents may be written
			sv, ok := f.vals[x]
			if !ok || sv.Sl == nil {
				continue
			}
			if !localBacking(x.X, f.fn) {
				continue
			}
			f.havocElems(sv, st)
		case *ssa.MakeSlice:
			if sv, ok := f.vals[x]; ok && sv.Sl != nil {
				f.havocElems(sv, st)
			}
		}
	}
}

func localBacking(v ssa.Value, fn *ssa.Function) bool {
	switch x := v.(type) {
	case *ssa.Alloc:
		return x.Parent() == fn
	case *ssa.MakeSlice:
		return x.Parent() == fn
	case *ssa.Slice:
		return localBacking(x.X, fn)
	}
	return false
}

func (f *Frame) havocElems(sv *V, st *State) {
	u := f.u
	et := sv.Typ.Underlying().(*types.Slice).Elem()
	for _, l := range flatten(et) {
		key := "E:" + typeKey(et) + l.Path
		inner := arrSort(SInt, l.Sort)
		fresh := u.fresh("out", inner)
		arr := sv.Sl.Arr
		u.write(st, key, arr, func(h T) T { return sto(h, arr, fresh) }, arrSort(SInt, inner))
	}
}
