package vc

import (
	"context"
	"fmt"
	"os"
	"path/filepath"
	"strings"
	"sync"
	"time"
)

type RunOpts struct {
	TimeoutMs int
	Seed      int
	Tier      string
	OutDir    string
}

type SolverStat struct {
	Discharged int
	Seconds    float64
}

// Discharge runs the solvers on all obligations of the unit.
func (u *Unit) Discharge(ctx context.Context, ro RunOpts, stats map[string]*SolverStat, mu *sync.Mutex) {
	if len(u.obls) == 0 {
		return
	}
	solvers := Solvers(ro.TimeoutMs, ro.Seed)
	script := u.Script(false)
	if ro.OutDir != "" {
		os.MkdirAll(filepath.Join(ro.OutDir, "smt"), 0o755)
		os.WriteFile(filepath.Join(ro.OutDir, "smt", sanitizeFile(u.name)+".smt2"), []byte(script), 0o644)
	}
	var proofs, covers []*Oblig
	for _, ob := range u.obls {
		if ob.Cover {
			covers = append(covers, ob)
		} else {
			proofs = append(proofs, ob)
		}
	}
	hard := time.Duration(len(proofs)*ro.TimeoutMs+20000) * time.Millisecond
	record := func(solver string, n int, secs float64) {
		mu.Lock()
		defer mu.Unlock()
		s := stats[solver]
		if s == nil {
			s = &SolverStat{}
			stats[solver] = s
		}
		s.Discharged += n
		s.Seconds += secs
	}
	primary := solvers[0]
	// cover checks: a short budget; only a proof of unreachability (unsat) counts against us
	if len(covers) > 0 {
		cs := Solvers(1500, ro.Seed)[0]
		ans, _, _, _ := RunScript(ctx, cs, u.Script(true), time.Duration(len(covers)*1500+10000)*time.Millisecond)
		for i, ob := range covers {
			ob.Status = "unknown"
			ob.Solver = cs.Name
			if i < len(ans) {
				ob.Status = ans[i]
			}
		}
	}
	// pass 1: all solvers on the whole script concurrently, short per-query budget
	fastMs := ro.TimeoutMs / 4
	if fastMs < 1000 {
		fastMs = 1000
	}
	type passRes struct {
		s       SolverSpec
		answers []string
		raw     string
		el      time.Duration
	}
	fast := Solvers(fastMs, ro.Seed)
	if ro.Tier == "thorough" && fastMs > 8000 {
		// whole-script pass of the thorough tier: 8 s per query for the primary solver, 3 s for the
		// secondary ones - what is left open is raced standalone below with the full budget anyway, and
		// long timeouts in this pass dominated the wall time of the tier
		fastMs = 8000
		fast = Solvers(fastMs, ro.Seed)
		sec := Solvers(3000, ro.Seed)
		for i := 1; i < len(fast) && i < len(sec); i++ {
			fast[i] = sec[i]
		}
	}
	if ro.Tier != "thorough" {
		// quick tier: the primary solver alone; whatever it leaves open is raced on all solvers below
		fast = fast[:1]
	}
	prs := make([]passRes, len(fast))
	var wg1 sync.WaitGroup
	for i, s := range fast {
		i, s := i, s
		wg1.Add(1)
		go func() {
			defer wg1.Done()
			ans, raw, el, _ := RunScript(ctx, s, script, time.Duration(len(proofs)*fastMs+20000)*time.Millisecond)
			prs[i] = passRes{s, ans, raw, el}
		}()
	}
	wg1.Wait()
	_ = hard
	_ = primary
	for _, ob := range proofs {
		ob.Status = "error"
	}
	for _, pr := range prs {
		n := 0
		for i, ob := range proofs {
			if i >= len(pr.answers) {
				break
			}
			a := pr.answers[i]
			if ob.Status == "unsat" {
				continue
			}
			if a == "unsat" {
				ob.Status, ob.Solver = a, pr.s.Name
				ob.Seconds = pr.el.Seconds() / float64(len(proofs))
				n++
			} else if ob.Status == "error" || (a == "sat" && ob.Status != "sat") {
				ob.Status, ob.Solver = a, pr.s.Name
			}
		}
		record(pr.s.Name, n, pr.el.Seconds())
		if len(pr.answers) != len(proofs) && ro.OutDir != "" {
			os.WriteFile(filepath.Join(ro.OutDir, "smt", sanitizeFile(u.name)+"."+pr.s.Name+".out"), []byte(pr.raw), 0o644)
		}
	}
	// second chance for everything not decided as expected: all solvers, standalone
	var wg sync.WaitGroup
	sem := make(chan struct{}, 8)
	for _, ob := range proofs {
		if ob.ok() {
			continue
		}
		ob := ob
		wg.Add(1)
		go func() {
			defer wg.Done()
			sem <- struct{}{}
			defer func() { <-sem }()
			u.retry(ctx, ob, solvers, ro, record)
		}()
	}
	wg.Wait()
	if ro.Tier == "thorough" {
		// cross-check: no other solver may contradict a discharged obligation
		// (short per-query budget: the cross-check looks for a solver that *refutes* a discharged
		// obligation; a solver that merely needs long is not informative and would make the tier
		// take hours on the big plans)
		xs := Solvers(1000, ro.Seed)
		for _, s := range xs[1:] {
			ans, _, el2, _ := RunScript(ctx, s, script, time.Duration(len(proofs)*1000+20000)*time.Millisecond)
			agree := 0
			for i, ob := range proofs {
				if i >= len(ans) {
					break
				}
				if ob.Cover {
					continue
				}
				if ob.Status == "unsat" && ans[i] == "sat" {
					ob.Status = "sat"
					ob.Solver = s.Name + " (contradicts " + ob.Solver + ")"
				} else if ans[i] == "unsat" {
					agree++
				}
			}
			mu.Lock()
			st := stats[s.Name+" (cross-check)"]
			if st == nil {
				st = &SolverStat{}
				stats[s.Name+" (cross-check)"] = st
			}
			st.Discharged += agree
			st.Seconds += el2.Seconds()
			mu.Unlock()
		}
	}
}

func (ob *Oblig) ok() bool {
	if ob.Cover {
		return ob.Status != "unsat"
	}
	return ob.Status == "unsat"
}

func (u *Unit) retry(ctx context.Context, ob *Oblig, solvers []SolverSpec, ro RunOpts, record func(string, int, float64)) {
	type res struct {
		solver string
		ans    string
		raw    string
		secs   float64
	}
	script := u.ScriptFor(ob, false)
	if ro.OutDir != "" {
		os.WriteFile(filepath.Join(ro.OutDir, "smt", "retry_"+sanitizeFile(ob.Name)+".smt2"), []byte(script), 0o644)
	}
	ch := make(chan res, len(solvers))
	cctx, cancel := context.WithCancel(ctx)
	defer cancel()
	long := ro.TimeoutMs
	// portfolio: all solvers, and the z3 versions under several seeds (hard quantified goals are
	// sensitive to the instantiation order; an obligation counts as discharged when any run proves it)
	var port []SolverSpec
	for k := 0; k < 3; k++ {
		ss := Solvers(long, ro.Seed+k*7919)
		if k == 0 {
			port = append(port, ss...)
		} else {
			for _, s := range ss[:2] {
				s.Name = fmt.Sprintf("%s (seed+%d)", s.Name, k)
				port = append(port, s)
			}
		}
	}
	solvers = port
	ch = make(chan res, len(port))
	for _, s := range port {
		s := s
		go func() {
			ans, raw, el, _ := RunScript(cctx, s, script, time.Duration(long+5000)*time.Millisecond)
			a := "unknown"
			if len(ans) > 0 {
				a = ans[0]
			}
			ch <- res{s.Name, a, raw, el.Seconds()}
		}()
	}
	got := 0
	final := res{ans: "unknown"}
	for got < len(solvers) {
		r := <-ch
		got++
		want := "unsat"
		if ob.Cover {
			want = "sat"
		}
		if r.ans == want {
			final = r
			break
		}
		if r.ans == "sat" || r.ans == "unsat" {
			// a definite answer that is not the wanted one: keep, but let others finish
			if final.ans != "sat" && final.ans != "unsat" {
				final = r
			}
		} else if final.ans == "unknown" && final.solver == "" {
			final = r
		}
	}
	ob.Status = final.ans
	ob.Solver = final.solver
	ob.Seconds = final.secs
	if ob.ok() {
		record(final.solver, 1, final.secs)
		return
	}
	if !ob.Cover && ob.Status == "sat" {
		// fetch a model
		ms := u.ScriptFor(ob, true)
		for _, s := range Solvers(long, ro.Seed) {
			if !strings.HasPrefix(final.solver, s.Name) {
				continue
			}
			_, raw, _, _ := RunScript(ctx, s, ms, time.Duration(long+5000)*time.Millisecond)
			ob.Model = raw
		}
	} else {
		ob.Model = final.raw
	}
}

// LastChance re-runs one undischarged obligation standalone on the three solvers with a long budget. The
// driver calls it sequentially, after everything else has finished, for the few obligations that are
// still open: on a loaded machine (several checks running at once) queries that normally take a few
// seconds can exceed the per-query budget of the parallel phase, and that must not turn into an alarm.
func (u *Unit) LastChance(ctx context.Context, ob *Oblig, timeoutMs, seed int) bool {
	if ob.Cover || ob.ok() {
		return ob.ok()
	}
	script := u.ScriptFor(ob, false)
	type res struct {
		solver, ans string
		secs        float64
	}
	ss := Solvers(timeoutMs, seed)
	ch := make(chan res, len(ss))
	cctx, cancel := context.WithCancel(ctx)
	defer cancel()
	for _, s := range ss {
		s := s
		go func() {
			ans, _, el, _ := RunScript(cctx, s, script, time.Duration(timeoutMs+5000)*time.Millisecond)
			a := "unknown"
			if len(ans) > 0 {
				a = ans[0]
			}
			ch <- res{s.Name, a, el.Seconds()}
		}()
	}
	for range ss {
		r := <-ch
		if r.ans == "unsat" {
			ob.Status, ob.Solver, ob.Seconds = "unsat", r.solver+" (last chance, sequential)", r.secs
			return true
		}
	}
	return false
}

func sanitizeFile(s string) string {
	r := strings.NewReplacer("/", "_", " ", "_", "*", "_", "(", "_", ")", "_", "$", "_", ":", "_", "\"", "_", "'", "_", "|", "_", "<", "_", ">", "_", "&", "_", ";", "_")
	out := r.Replace(s)
	if len(out) > 150 {
		out = out[:150]
	}
	return out
}

func (ob *Oblig) String() string {
	return fmt.Sprintf("%-8s %s  [%s %.2fs]", ob.Status, ob.Name, ob.Solver, ob.Seconds)
}
