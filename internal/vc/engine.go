package vc

import (
	"fmt"
	"go/ast"
	"go/token"
	"go/types"
	"os"
	"path/filepath"
	"sort"
	"strings"
	"sync"

	"golang.org/x/tools/go/packages"
	"golang.org/x/tools/go/ssa"
	"golang.org/x/tools/go/ssa/ssautil"
)

const RepoModule = "github.com/robustirc/robustirc"

type Engine struct {
	RepoDir  string
	VerifDir string
	Fset     *token.FileSet
	Pkgs     []*packages.Package
	AllPkgs  map[string]*packages.Package
	Prog     *ssa.Program
	SSAPkgs  []*ssa.Package
	Specs    *SpecSet
	Funcs    map[string]*ssa.Function // short name → function (repo and deps)
	srcCache map[string][]byte
	// LockMode (C20): lock state is tracked through assumed contracts of sync.RWMutex (contracts/deps_locks.spec),
	// `guard` directives generate an obligation at every access to a guarded field
	LockMode bool
	// immutable globals: never stored to outside their package's init
	globalStores map[*ssa.Global]int
	sentinelErrs map[*ssa.Global]bool
	globalInit   map[*ssa.Global]ssa.Value
	LoadSeconds  float64
	mu           sync.Mutex
	DynCallHook  DynHook
	Nondet       map[string]bool
	// InferPatterns adds explicit triggers (map-membership atoms) to universally quantified
	// spec formulas. Off by default: the solvers' own trigger selection proved more robust.
	InferPatterns bool
}

// Load loads the given package patterns of /repo (with the verif tag) and
// builds SSA for them and all dependencies.
// LockModeDefault is copied into Engine.LockMode by Load (set by the plan that checks lock discipline).
var LockModeDefault bool

func Load(repoDir, verifDir string, patterns ...string) (*Engine, error) {
	e := &Engine{LockMode: LockModeDefault, RepoDir: repoDir, VerifDir: verifDir, Funcs: map[string]*ssa.Function{}, srcCache: map[string][]byte{},
		Nondet: map[string]bool{}, AllPkgs: map[string]*packages.Package{}, globalStores: map[*ssa.Global]int{}, sentinelErrs: map[*ssa.Global]bool{}, globalInit: map[*ssa.Global]ssa.Value{}}
	env := append(os.Environ(), "GOFLAGS=-mod=mod", "GOPROXY=off", "GOSUMDB=off", "GOTOOLCHAIN=local")
	cfg := &packages.Config{Mode: packages.LoadAllSyntax, Dir: repoDir, BuildFlags: []string{"-tags=verif"}, Env: env}
	pkgs, err := packages.Load(cfg, patterns...)
	if err != nil {
		return nil, err
	}
	var errs []string
	packages.Visit(pkgs, nil, func(p *packages.Package) {
		e.AllPkgs[p.PkgPath] = p
		if strings.HasPrefix(p.PkgPath, RepoModule) {
			for _, pe := range p.Errors {
				errs = append(errs, pe.Error())
			}
		}
	})
	if len(errs) > 0 {
		return nil, fmt.Errorf("package errors: %s", strings.Join(errs, "; "))
	}
	e.Pkgs = pkgs
	if len(pkgs) > 0 {
		e.Fset = pkgs[0].Fset
	}
	prog, spkgs := ssautil.AllPackages(pkgs, ssa.GlobalDebug|ssa.InstantiateGenerics)
	prog.Build()
	e.Prog = prog
	e.SSAPkgs = spkgs
	for fn := range ssautil.AllFunctions(prog) {
		if fn.Pkg == nil && fn.Parent() == nil && fn.Synthetic == "" {
			continue
		}
		name := ShortName(fn)
		if name == "" {
			continue
		}
		if old, ok := e.Funcs[name]; ok && old != fn {
			// keep the one that belongs to the repo, else the first by full name
			if isRepoFunc(old) && !isRepoFunc(fn) {
				continue
			}
			if !isRepoFunc(fn) && old.String() < fn.String() {
				continue
			}
		}
		e.Funcs[name] = fn
	}
	e.scanGlobals()
	e.Specs = NewSpecSet()
	if err := e.loadSpecs(); err != nil {
		return nil, err
	}
	return e, nil
}

func isRepoFunc(fn *ssa.Function) bool {
	p := fn.Pkg
	if p == nil && fn.Parent() != nil {
		p = fn.Parent().Pkg
	}
	if p == nil {
		if fn.Object() != nil && fn.Object().Pkg() != nil {
			return strings.HasPrefix(fn.Object().Pkg().Path(), RepoModule)
		}
		return false
	}
	return strings.HasPrefix(p.Pkg.Path(), RepoModule)
}

func pkgOf(fn *ssa.Function) *types.Package {
	if fn.Pkg != nil {
		return fn.Pkg.Pkg
	}
	if fn.Parent() != nil {
		return pkgOf(fn.Parent())
	}
	if fn.Object() != nil {
		return fn.Object().Pkg()
	}
	return nil
}

// ShortName gives "<pkgname>.<Recv>.<Method>" or "<pkgname>.<Func>"; closures
// are "<parent>$<n>".
func ShortName(fn *ssa.Function) string {
	if fn.Parent() != nil {
		// anonymous function: name is like "applyProto$1"
		p := ShortName(fn.Parent())
		n := fn.Name()
		if i := strings.LastIndex(n, "$"); i >= 0 {
			return p + n[i:]
		}
		return p + "$" + n
	}
	pkg := pkgOf(fn)
	pn := ""
	if pkg != nil {
		pn = pkg.Name()
	}
	if recv := fn.Signature.Recv(); recv != nil {
		t := recv.Type()
		if p, ok := t.(*types.Pointer); ok {
			t = p.Elem()
		}
		tn := ""
		if n, ok := t.(*types.Named); ok {
			tn = n.Obj().Name()
			if n.Obj().Pkg() != nil {
				pn = n.Obj().Pkg().Name()
			}
		} else {
			tn = typeKey(t)
		}
		name := fn.Name()
		// bound/thunk wrappers keep their synthetic names distinct
		if fn.Synthetic != "" && strings.Contains(fn.Synthetic, "wrapper") {
			return ""
		}
		return pn + "." + tn + "." + name
	}
	if fn.Synthetic != "" && !strings.HasPrefix(fn.Synthetic, "package initializer") && !strings.HasPrefix(fn.Synthetic, "instance") {
		return ""
	}
	return pn + "." + fn.Name()
}

func (e *Engine) scanGlobals() {
	for fn := range ssautil.AllFunctions(e.Prog) {
		isInit := fn.Name() == "init" || strings.HasPrefix(fn.Name(), "init#") || (fn.Parent() != nil && fn.Parent().Name() == "init")
		for _, b := range fn.Blocks {
			for _, ins := range b.Instrs {
				st, ok := ins.(*ssa.Store)
				if !ok {
					continue
				}
				g, ok := st.Addr.(*ssa.Global)
				if !ok {
					continue
				}
				if isInit && fn.Pkg == g.Pkg {
					e.globalInit[g] = st.Val
					if c, ok := st.Val.(*ssa.Call); ok {
						if sc := c.Call.StaticCallee(); sc != nil && sc.Pkg != nil && sc.Pkg.Pkg.Path() == "errors" && sc.Name() == "New" {
							e.sentinelErrs[g] = true
						}
					}
					continue
				}
				e.globalStores[g]++
			}
		}
	}
}

// GlobalImmutable reports whether g is only ever stored to by its package's init.
// Taking the address of a global for anything but loads is not tracked; such
// globals are rare in this code base (flag pointers are values, not addresses).
func (e *Engine) GlobalImmutable(g *ssa.Global) bool { return e.globalStores[g] == 0 }

func (e *Engine) loadSpecs() error {
	// 1. dependency contracts
	deps := filepath.Join(e.VerifDir, "contracts", "deps.spec")
	if b, err := os.ReadFile(deps); err == nil {
		var lines []string
		for _, l := range strings.Split(string(b), "\n") {
			lines = append(lines, l)
		}
		if err := e.Specs.ParseSpecText("contracts/deps.spec", "", lines); err != nil {
			return err
		}
		for _, c := range e.Specs.Contracts {
			c.Trusted = true
		}
	}
	if e.LockMode {
		locks := filepath.Join(e.VerifDir, "contracts", "deps_locks.spec")
		if b, err := os.ReadFile(locks); err == nil {
			if err := e.Specs.ParseSpecText("contracts/deps_locks.spec", "", strings.Split(string(b), "\n")); err != nil {
				return err
			}
			for _, c := range e.Specs.Contracts {
				c.Trusted = true
			}
		}
	}
	// 2. contracts_verif.go files of repo packages (comment-only, build tag verif)
	var paths []string
	for p := range e.AllPkgs {
		if strings.HasPrefix(p, RepoModule) {
			paths = append(paths, p)
		}
	}
	sort.Strings(paths)
	for _, pp := range paths {
		p := e.AllPkgs[pp]
		for i, f := range p.Syntax {
			fname := p.CompiledGoFiles[i]
			if !strings.HasSuffix(fname, "_verif.go") {
				continue
			}
			var lines []string
			for _, cg := range f.Comments {
				for _, c := range cg.List {
					if strings.HasPrefix(c.Text, "//@") {
						lines = append(lines, strings.TrimPrefix(c.Text, "//@"))
					}
				}
			}
			// the file must be comment-only
			if len(f.Decls) != 0 {
				return fmt.Errorf("%s: contract files must not contain declarations", fname)
			}
			rel, _ := filepath.Rel(e.RepoDir, fname)
			if err := e.Specs.ParseSpecText(rel, p.Types.Name(), lines); err != nil {
				return err
			}
		}
	}
	if !e.LockMode {
		// clauses about lock state (label prefix "locks-") only mean something when lock tracking is on
		drop := func(cs []Clause) []Clause {
			var out []Clause
			for _, c := range cs {
				if !strings.HasPrefix(c.Label, "locks-") {
					out = append(out, c)
				}
			}
			return out
		}
		for _, ct := range e.Specs.Contracts {
			ct.Requires, ct.Ensures, ct.LoopInv = drop(ct.Requires), drop(ct.Ensures), drop(ct.LoopInv)
			var as []AnchorAssert
			for _, a := range ct.Asserts {
				if !strings.HasPrefix(a.Label, "locks-") {
					as = append(as, a)
				}
			}
			ct.Asserts = as
			for _, ls := range ct.Loops {
				ls.Invariants = drop(ls.Invariants)
			}
		}
	}
	return nil
}

func (e *Engine) source(file string) []byte {
	e.mu.Lock()
	defer e.mu.Unlock()
	if b, ok := e.srcCache[file]; ok {
		return b
	}
	b, _ := os.ReadFile(file)
	e.srcCache[file] = b
	return b
}

// exprText returns the normalised source text of an AST node.
func (e *Engine) exprText(n ast.Node) string {
	if n == nil {
		return ""
	}
	p1 := e.Fset.Position(n.Pos())
	p2 := e.Fset.Position(n.End())
	src := e.source(p1.Filename)
	if p1.Offset < 0 || p2.Offset > len(src) || p1.Offset > p2.Offset {
		return ""
	}
	return strings.Join(strings.Fields(string(src[p1.Offset:p2.Offset])), " ")
}

// ReturnTextAt returns the normalised source text of the results of the return statement at pos
// ("snapshot.LastIncludedIndex, nil"), "" for a bare return or when the statement is not found.
func (e *Engine) ReturnTextAt(pos token.Pos) string {
	file := e.syntaxFile(pos)
	if file == nil {
		return ""
	}
	var out string
	ast.Inspect(file, func(n ast.Node) bool {
		if rs, ok := n.(*ast.ReturnStmt); ok && rs.Return == pos {
			var parts []string
			for _, r := range rs.Results {
				parts = append(parts, e.exprText(r))
			}
			out = strings.Join(parts, ", ")
			return false
		}
		return true
	})
	return out
}

// IfCondTextAt returns the normalised source text of the condition of the innermost if statement whose
// condition spans pos ("" when there is none).
func (e *Engine) IfCondTextAt(pos token.Pos) string {
	file := e.syntaxFile(pos)
	if file == nil {
		return ""
	}
	var best *ast.IfStmt
	ast.Inspect(file, func(n ast.Node) bool {
		if is, ok := n.(*ast.IfStmt); ok && is.Cond != nil && is.Cond.Pos() <= pos && pos <= is.Cond.End() {
			if best == nil || (is.Cond.End()-is.Cond.Pos()) < (best.Cond.End()-best.Cond.Pos()) {
				best = is
			}
		}
		return true
	})
	if best == nil {
		return ""
	}
	return e.exprText(best.Cond)
}

// syntaxFile finds the *ast.File containing pos.
func (e *Engine) syntaxFile(pos token.Pos) *ast.File {
	if !pos.IsValid() {
		return nil
	}
	for _, p := range e.AllPkgs {
		if !strings.HasPrefix(p.PkgPath, RepoModule) {
			continue
		}
		for _, f := range p.Syntax {
			if f.Pos() <= pos && pos <= f.End() {
				return f
			}
		}
	}
	return nil
}

// FuncByName resolves a contract name.
func (e *Engine) FuncByName(name string) *ssa.Function { return e.Funcs[name] }

// GlobalInitValue returns the value a package initialiser stores into g (nil if unknown).
func (e *Engine) GlobalInitValue(g *ssa.Global) ssa.Value { return e.globalInit[g] }

// PosText gives "file:line" relative to the repository plus nothing else (for reports, never for names).
func (e *Engine) PosText(pos token.Pos) string {
	p := e.Fset.Position(pos)
	f := strings.TrimPrefix(p.Filename, e.RepoDir+"/")
	return fmt.Sprintf("%s:%d", f, p.Line)
}

// ExprTextAt returns the normalised source text of the operand of the range statement at pos.
func (e *Engine) ExprTextAt(pos, alt token.Pos) string {
	for _, p := range []token.Pos{alt, pos} {
		if !p.IsValid() {
			continue
		}
		file := e.syntaxFile(p)
		if file == nil {
			continue
		}
		var best ast.Node
		ast.Inspect(file, func(n ast.Node) bool {
			if rs, ok := n.(*ast.RangeStmt); ok {
				if rs.For == p || rs.X.Pos() == p || rs.Pos() == p {
					best = rs.X
				}
			}
			return best == nil
		})
		if best != nil {
			return e.exprText(best)
		}
	}
	return ""
}
