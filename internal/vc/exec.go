package vc

import (
	"fmt"
	"go/ast"
	"go/constant"
	"go/token"
	"go/types"
	"sort"
	"strings"

	"golang.org/x/tools/go/ssa"
)

// Frame is one activation (the function under contract or an inlined callee).
type Frame struct {
	u        *Unit
	fn       *ssa.Function
	vals     map[ssa.Value]*V
	depth    int
	top      bool
	contract *Contract
	entry    *State // state at entry (for old())
	params   map[string]*V
	lets     map[string]*V
	defers   []*deferRec
	rets     []retRec
	anchor   string // prefix for obligation anchors ("" at top, "inl:callee/" when inlined)
	loops    map[*ssa.BasicBlock]*loopInfo
	iters    map[ssa.Value]*iterInfo
	callOrd  map[string]int
	litOrd   map[string]int
	parent   *Frame
	order    []*ssa.BasicBlock
	curBlock *ssa.BasicBlock
	curIdx   int
	recoverVal *V
	varRefs  map[string][]varRef
	isInit   bool
	anchorOrd   map[string]int
	afterOrd    map[string]int
	lastCallRes *V
	curCallArgs []*V
	usedAnchors map[string]bool
}

// varRef is one place where a source variable is bound to an SSA value.
type varRef struct {
	block *ssa.BasicBlock
	idx   int
	val   ssa.Value
	addr  bool
}

type deferRec struct {
	guard T
	call  *ssa.CallCommon
	instr ssa.Instruction
}

type retRec struct {
	st   *State
	vals []*V
}

type iterInfo struct {
	m       *V     // the map
	seenKey string // heap key of the visited set
	isStr   bool
}

type loopInfo struct {
	header *ssa.BasicBlock
	blocks map[*ssa.BasicBlock]bool
	key    string
	spec   *LoopSpec
	// filled while executing
	pre      *State
	preVals  map[*ssa.Phi]*V
	havocked []string
	frameB   map[string][]T
	iter     *iterInfo
	zeroOff  map[*ssa.Phi]bool
	headSt   *State // the state at the loop head of the iteration being executed (for athead())
	lower    map[*ssa.Phi]T
}

type writeRec struct {
	key   string
	base  T
	sort  Sort
	whole bool // written at unknown objects (callee with a whole-field footprint)
	except []hk // for key "*": types whose pre-existing objects are not written
}

// ---------------------------------------------------------------------------

func (f *Frame) fail(format string, a ...interface{}) {
	panic(unsupported(fmt.Sprintf("%s: %s", ShortName(f.fn), fmt.Sprintf(format, a...))))
}

func (u *Unit) constVal(c *ssa.Const) *V {
	t := c.Type()
	if c.Value == nil {
		return u.zeroVal(t)
	}
	if isTime(t) {
		return &V{Typ: t, T: intLit(0)}
	}
	switch b := t.Underlying().(type) {
	case *types.Basic:
		switch {
		case b.Info()&types.IsBoolean != 0:
			if constant.BoolVal(c.Value) {
				return &V{Typ: t, T: tTrue}
			}
			return &V{Typ: t, T: tFalse}
		case b.Info()&types.IsInteger != 0:
			return &V{Typ: t, T: bigLit(c.Value.ExactString())}
		case b.Info()&types.IsString != 0:
			return &V{Typ: t, T: u.strLit(constant.StringVal(c.Value))}
		case b.Info()&types.IsFloat != 0:
			fv, _ := constant.Float64Val(c.Value)
			s := fmt.Sprintf("%f", fv)
			if fv < 0 {
				s = fmt.Sprintf("(- %f)", -fv)
			}
			return &V{Typ: t, T: T{s, SReal}}
		}
	}
	panic(unsupported("constant of type " + typeKey(t)))
}

func (u *Unit) zeroVal(t types.Type) *V {
	if s, ok := scalarSort(t); ok {
		switch {
		case s == SInt:
			return &V{Typ: t, T: intLit(0)}
		case s == SBool:
			return &V{Typ: t, T: tFalse}
		case s == SStr:
			return &V{Typ: t, T: T{"s.empty", SStr}}
		case s == SReal:
			return &V{Typ: t, T: T{"0.0", SReal}}
		case isOpaqueArr(t):
			return &V{Typ: t, T: intLit(0)}
		case strings.HasPrefix(s, "(Array"):
			arr := t.Underlying().(*types.Array)
			z := u.zeroVal(arr.Elem())
			return &V{Typ: t, T: u.constArr(s, z.T)}
		}
	}
	switch ut := t.Underlying().(type) {
	case *types.Struct:
		v := &V{Typ: t, F: make([]*V, ut.NumFields())}
		for i := range v.F {
			v.F[i] = u.zeroVal(ut.Field(i).Type())
		}
		return v
	case *types.Slice:
		z := intLit(0)
		return &V{Typ: t, Sl: &SliceParts{z, z, z, z}}
	case *types.Tuple:
		v := &V{Typ: t, F: make([]*V, ut.Len())}
		for i := range v.F {
			v.F[i] = u.zeroVal(ut.At(i).Type())
		}
		return v
	}
	panic(unsupported("zero value of type " + typeKey(t)))
}

// freshVal creates an unconstrained symbolic value of type t and assumes its
// type invariants under st.reach.
func (u *Unit) freshVal(st *State, t types.Type, hint string) *V {
	if s, ok := scalarSort(t); ok {
		v := &V{Typ: t, T: u.fresh(hint, s)}
		u.assumeTypeInv(st, v)
		return v
	}
	switch ut := t.Underlying().(type) {
	case *types.Struct:
		v := &V{Typ: t, F: make([]*V, ut.NumFields())}
		for i := range v.F {
			v.F[i] = u.freshVal(st, ut.Field(i).Type(), hint+"."+ut.Field(i).Name())
		}
		return v
	case *types.Tuple:
		v := &V{Typ: t, F: make([]*V, ut.Len())}
		for i := range v.F {
			v.F[i] = u.freshVal(st, ut.At(i).Type(), fmt.Sprintf("%s.%d", hint, i))
		}
		return v
	case *types.Slice:
		v := &V{Typ: t, Sl: &SliceParts{u.fresh(hint+"#arr", SInt), u.fresh(hint+"#off", SInt), u.fresh(hint+"#len", SInt), u.fresh(hint+"#cap", SInt)}}
		u.assumeTypeInv(st, v)
		return v
	}
	panic(unsupported("fresh value of type " + typeKey(t)))
}

func (u *Unit) assumeTypeInv(st *State, v *V) {
	if v.LV != nil || v.Fn != nil {
		return
	}
	if v.Sl != nil {
		z := intLit(0)
		u.assume(st, and(app(SBool, ">=", v.Sl.Len, z), app(SBool, ">=", v.Sl.Off, z), app(SBool, "<=", v.Sl.Len, v.Sl.Cap),
			app(SBool, ">=", v.Sl.Arr, z), app(SBool, "<=", v.Sl.Arr, st.alloc),
			implies(eq(v.Sl.Arr, z), eq(v.Sl.Cap, z))))
		return
	}
	if v.F != nil {
		for _, f := range v.F {
			u.assumeTypeInv(st, f)
		}
		return
	}
	t := v.Typ
	if t == nil {
		return
	}
	if isInteger(t) {
		lo, hi := intRange(t)
		if u.exact {
			u.assume(st, and(app(SBool, "<=", lo, v.T), app(SBool, "<=", v.T, hi)))
		} else if isUnsigned(t) {
			u.assume(st, app(SBool, "<=", lo, v.T))
		}
		return
	}
	switch t.Underlying().(type) {
	case *types.Pointer, *types.Map:
		u.assume(st, app(SBool, "<=", app(SInt, "root", v.T), st.alloc))
	}
}

// ---------------------------------------------------------------------------
// memory access

func structKey(t types.Type) string { return typeKey(t) }

// loadObj loads a value of type t stored in the object at ref.
func (u *Unit) loadObj(st *State, t types.Type, ref T) *V {
	if isTime(t) {
		return &V{Typ: t, T: sel(u.heapGet(st, "C:"+typeKey(t), arrSort(SInt, SInt)), ref)}
	}
	switch ut := t.Underlying().(type) {
	case *types.Struct:
		v := &V{Typ: t, F: make([]*V, ut.NumFields())}
		sk := structKey(t)
		for i := 0; i < ut.NumFields(); i++ {
			v.F[i] = u.loadField(st, sk, ut.Field(i), ref)
		}
		return v
	case *types.Array:
		es, ok := scalarSort(ut.Elem())
		if !ok {
			return &V{Typ: t, T: intLit(0)}
		}
		return &V{Typ: t, T: sel(u.heapGet(st, "E:"+typeKey(ut.Elem()), arrSort(SInt, arrSort(SInt, es))), ref)}
	case *types.Slice:
		return u.loadLeaves(st, t, func(l Leaf) T {
			return sel(u.heapGet(st, "C:"+typeKey(t)+l.Path, arrSort(SInt, l.Sort)), ref)
		})
	}
	s, ok := scalarSort(t)
	if !ok {
		panic(unsupported("load of type " + typeKey(t)))
	}
	return &V{Typ: t, T: sel(u.heapGet(st, "C:"+typeKey(t), arrSort(SInt, s)), ref)}
}

func (u *Unit) loadLeaves(st *State, t types.Type, get func(Leaf) T) *V {
	var ts []T
	for _, l := range flatten(t) {
		ts = append(ts, get(l))
	}
	return fromLeaves(t, &ts)
}

func (u *Unit) loadField(st *State, sk string, fld *types.Var, ref T) *V {
	ft := fld.Type()
	if !isTime(ft) && !isOpaqueArr(ft) {
		switch ft.Underlying().(type) {
		case *types.Struct, *types.Array:
			return u.loadObj(st, ft, u.emb(sk, fld.Name(), ref))
		}
	}
	key := "F:" + sk + "." + fld.Name()
	return u.loadLeaves(st, ft, func(l Leaf) T {
		if l.Typ != nil && l.Sort == SInt {
			switch l.Typ.Underlying().(type) {
			case *types.Pointer, *types.Map:
				u.markRefKey(key + l.Path)
			}
		} else if strings.HasSuffix(l.Path, "#arr") {
			// the backing array of a slice is an object as well
			u.markRefKey(key + l.Path)
		}
		return sel(u.heapGet(st, key+l.Path, arrSort(SInt, l.Sort)), ref)
	})
}

func (u *Unit) storeObj(st *State, t types.Type, ref T, v *V) {
	if isTime(t) {
		k := "C:" + typeKey(t)
		u.write(st, k, ref, func(h T) T { return sto(h, ref, v.T) }, arrSort(SInt, SInt))
		return
	}
	switch ut := t.Underlying().(type) {
	case *types.Struct:
		sk := structKey(t)
		for i := 0; i < ut.NumFields(); i++ {
			u.storeField(st, sk, ut.Field(i), ref, v.F[i])
		}
		return
	case *types.Array:
		es, ok := scalarSort(ut.Elem())
		if !ok {
			return
		}
		k := "E:" + typeKey(ut.Elem())
		u.write(st, k, ref, func(h T) T { return sto(h, ref, v.T) }, arrSort(SInt, arrSort(SInt, es)))
		return
	}
	ls := flatten(t)
	ts := v.leaves()
	for i, l := range ls {
		k := "C:" + typeKey(t) + l.Path
		x := ts[i]
		u.write(st, k, ref, func(h T) T { return sto(h, ref, x) }, arrSort(SInt, l.Sort))
	}
}

func (u *Unit) storeField(st *State, sk string, fld *types.Var, ref T, v *V) {
	ft := fld.Type()
	if !isTime(ft) && !isOpaqueArr(ft) {
		switch ft.Underlying().(type) {
		case *types.Struct, *types.Array:
			u.storeObj(st, ft, u.emb(sk, fld.Name(), ref), v)
			return
		}
	}
	key := "F:" + sk + "." + fld.Name()
	ls := flatten(ft)
	ts := v.leaves()
	for i, l := range ls {
		x := ts[i]
		u.write(st, key+l.Path, ref, func(h T) T { return sto(h, ref, x) }, arrSort(SInt, l.Sort))
	}
}

// write updates heap key with f(old) and logs the write (for loop frames and
// modifies checks). base is the outer index that is written.
func (u *Unit) write(st *State, key string, base T, f func(T) T, sort Sort) {
	h := u.heapGet(st, key, sort)
	u.heapSet(st, key, f(h))
	if u.writeLog != nil {
		*u.writeLog = append(*u.writeLog, writeRec{key: key, base: base, sort: sort})
	}
}

// load through a pointer value.
func (f *Frame) load(st *State, p *V) *V {
	u := f.u
	pt, ok := p.Typ.Underlying().(*types.Pointer)
	if !ok {
		f.fail("load through non-pointer %s", typeKey(p.Typ))
	}
	et := pt.Elem()
	if p.LV == nil {
		return u.loadObj(st, et, p.T)
	}
	lv := p.LV
	switch lv.Kind {
	case "field":
		return u.loadLeaves(st, et, func(l Leaf) T {
			return sel(u.heapGet(st, lv.Key+l.Path, arrSort(SInt, l.Sort)), lv.Base)
		})
	case "elem":
		return u.loadLeaves(st, et, func(l Leaf) T {
			return sel(sel(u.heapGet(st, lv.Key+l.Path, arrSort(SInt, arrSort(SInt, l.Sort))), lv.Base), lv.Idx)
		})
	case "cell":
		return u.loadLeaves(st, et, func(l Leaf) T {
			return sel(u.heapGet(st, lv.Key+l.Path, arrSort(SInt, l.Sort)), lv.Base)
		})
	}
	panic("bad lvalue kind")
}

func (f *Frame) store(st *State, p *V, v *V) {
	u := f.u
	pt := p.Typ.Underlying().(*types.Pointer)
	et := pt.Elem()
	if p.LV == nil {
		u.storeObj(st, et, p.T, v)
		return
	}
	lv := p.LV
	ls := flatten(et)
	ts := v.leaves()
	for i, l := range ls {
		x := ts[i]
		switch lv.Kind {
		case "field", "cell":
			u.write(st, lv.Key+l.Path, lv.Base, func(h T) T { return sto(h, lv.Base, x) }, arrSort(SInt, l.Sort))
		case "elem":
			u.write(st, lv.Key+l.Path, lv.Base, func(h T) T { return sto(h, lv.Base, sto(sel(h, lv.Base), lv.Idx, x)) }, arrSort(SInt, arrSort(SInt, l.Sort)))
		}
	}
}

// ---------------------------------------------------------------------------
// maps

type mapKeys struct {
	dom, card string
	val       string // prefix; leaves appended
	ks        Sort
	kt, vt    types.Type
}

func (u *Unit) mapKeysOf(t types.Type) mapKeys {
	mt := t.Underlying().(*types.Map)
	k := "M:" + typeKey(t.Underlying())
	return mapKeys{dom: k + ".dom", card: k + ".card", val: k + ".val", ks: u.keySort(mt.Key()), kt: mt.Key(), vt: mt.Elem()}
}

func (u *Unit) mapDom(st *State, mk mapKeys, m T) T {
	return sel(u.heapGet(st, mk.dom, arrSort(SInt, arrSort(mk.ks, SBool))), m)
}

func (u *Unit) mapHas(st *State, mk mapKeys, m, k T) T {
	return and(not(eq(m, intLit(0))), sel(u.mapDom(st, mk, m), k))
}

func (u *Unit) mapCard(st *State, mk mapKeys, m T) T {
	return ite(eq(m, intLit(0)), intLit(0), sel(u.heapGet(st, mk.card, arrSort(SInt, SInt)), m))
}

func (u *Unit) mapValRaw(st *State, mk mapKeys, m, k T) *V {
	return u.loadLeaves(st, mk.vt, func(l Leaf) T {
		return sel(sel(u.heapGet(st, mk.val+l.Path, arrSort(SInt, arrSort(mk.ks, l.Sort))), m), k)
	})
}

// mapGet is m[k] with Go semantics (zero value when absent).
func (u *Unit) mapGet(st *State, mk mapKeys, m, k T) *V {
	raw := u.mapValRaw(st, mk, m, k)
	z := u.zeroVal(mk.vt)
	return u.iteVal(u.mapHas(st, mk, m, k), raw, z)
}

func (u *Unit) mapSet(st *State, mk mapKeys, m, k T, v *V) {
	has := sel(u.mapDom(st, mk, m), k)
	u.write(st, mk.card, m, func(h T) T { return sto(h, m, app(SInt, "+", sel(h, m), ite(has, intLit(0), intLit(1)))) }, arrSort(SInt, SInt))
	u.write(st, mk.dom, m, func(h T) T { return sto(h, m, sto(sel(h, m), k, tTrue)) }, arrSort(SInt, arrSort(mk.ks, SBool)))
	ls := flatten(mk.vt)
	ts := v.leaves()
	for i, l := range ls {
		x := ts[i]
		u.write(st, mk.val+l.Path, m, func(h T) T { return sto(h, m, sto(sel(h, m), k, x)) }, arrSort(SInt, arrSort(mk.ks, l.Sort)))
	}
}

func (u *Unit) mapDelete(st *State, mk mapKeys, m, k T) {
	// delete on a nil map is a no-op
	nz := not(eq(m, intLit(0)))
	has := sel(u.mapDom(st, mk, m), k)
	u.write(st, mk.card, m, func(h T) T {
		return ite(nz, sto(h, m, app(SInt, "-", sel(h, m), ite(has, intLit(1), intLit(0)))), h)
	}, arrSort(SInt, SInt))
	u.write(st, mk.dom, m, func(h T) T { return ite(nz, sto(h, m, sto(sel(h, m), k, tFalse)), h) }, arrSort(SInt, arrSort(mk.ks, SBool)))
}

// mapCardFacts links card and dom for the map m in state st.
func (u *Unit) mapCardFacts(st *State, mk mapKeys, m T) {
	card := sel(u.heapGet(st, mk.card, arrSort(SInt, SInt)), m)
	dom := u.mapDom(st, mk, m)
	u.assume(st, app(SBool, ">=", card, intLit(0)))
	u.assume(st, T{fmt.Sprintf("(forall ((k!q %s)) (! (=> (select %s k!q) (>= %s 1)) :pattern ((select %s k!q))))", mk.ks, dom.S, card.S, dom.S), SBool})
	u.assume(st, T{fmt.Sprintf("(=> (> %s 0) (exists ((k!q %s)) (select %s k!q)))", card.S, mk.ks, dom.S), SBool})
}

func (u *Unit) iteVal(c T, a, b *V) *V {
	if c.S == "true" {
		return a
	}
	if c.S == "false" {
		return b
	}
	if a.LV != nil || b.LV != nil {
		if a.LV != nil && b.LV != nil && a.LV.Kind == b.LV.Kind && a.LV.Key == b.LV.Key {
			lv := *a.LV
			lv.Base = ite(c, a.LV.Base, b.LV.Base)
			if a.LV.Kind == "elem" {
				lv.Idx = ite(c, a.LV.Idx, b.LV.Idx)
			}
			return &V{Typ: a.Typ, LV: &lv}
		}
		panic(unsupported("merge of different interior pointers"))
	}
	if a.Fn != nil || b.Fn != nil {
		if a.Fn != nil && b.Fn != nil && a.Fn.Fn == b.Fn.Fn && len(a.Fn.Bind) == 0 {
			return a
		}
		panic(unsupported("merge of closures"))
	}
	if a.Sl != nil {
		return &V{Typ: a.Typ, Sl: &SliceParts{ite(c, a.Sl.Arr, b.Sl.Arr), ite(c, a.Sl.Off, b.Sl.Off), ite(c, a.Sl.Len, b.Sl.Len), ite(c, a.Sl.Cap, b.Sl.Cap)}}
	}
	if a.F != nil {
		v := &V{Typ: a.Typ, F: make([]*V, len(a.F))}
		for i := range a.F {
			v.F[i] = u.iteVal(c, a.F[i], b.F[i])
		}
		return v
	}
	return &V{Typ: a.Typ, T: ite(c, a.T, b.T)}
}

// nameVal gives names to the leaf terms of v (keeps the script small).
func (u *Unit) nameVal(hint string, v *V) *V {
	if v.LV != nil || v.Fn != nil {
		return v
	}
	if v.Sl != nil {
		return &V{Typ: v.Typ, Sl: &SliceParts{u.define(hint+"#arr", v.Sl.Arr), u.define(hint+"#off", v.Sl.Off), u.define(hint+"#len", v.Sl.Len), u.define(hint+"#cap", v.Sl.Cap)}}
	}
	if v.F != nil {
		w := &V{Typ: v.Typ, F: make([]*V, len(v.F))}
		for i := range v.F {
			w.F[i] = u.nameVal(fmt.Sprintf("%s.%d", hint, i), v.F[i])
		}
		return w
	}
	return &V{Typ: v.Typ, T: u.define(hint, v.T)}
}

// ---------------------------------------------------------------------------
// executing a function body

type edgeIn struct {
	cond T
	st   *State
	from *ssa.BasicBlock
}

func (u *Unit) mergeStates(ins []edgeIn) *State {
	if len(ins) == 1 {
		s := ins[0].st.clone()
		s.reach = u.define("reach", ins[0].cond)
		return s
	}
	var conds []T
	for _, e := range ins {
		conds = append(conds, e.cond)
	}
	out := &State{reach: u.define("reach", or(conds...)), heap: map[string]T{}}
	sameEpoch := true
	for _, e := range ins {
		if e.st.epoch != ins[0].st.epoch {
			sameEpoch = false
		}
	}
	if sameEpoch {
		out.epoch = ins[0].st.epoch
	} else {
		var ps []epochParent
		for _, e := range ins {
			ps = append(ps, epochParent{e.cond, e.st.epoch})
		}
		out.epoch = u.newEpoch(ps)
	}
	keys := map[string]bool{}
	for _, e := range ins {
		for k := range e.st.heap {
			keys[k] = true
		}
	}
	var ks []string
	for k := range keys {
		ks = append(ks, k)
	}
	sort.Strings(ks)
	for _, k := range ks {
		srt := u.heapSort[k]
		var t T
		for i := len(ins) - 1; i >= 0; i-- {
			h := u.heapGet(ins[i].st, k, srt)
			if i == len(ins)-1 {
				t = h
			} else {
				t = ite(ins[i].cond, h, t)
			}
		}
		if len(t.S) > 40 {
			u.heapSet(out, k, t)
		} else {
			out.heap[k] = t
		}
	}
	al := ins[len(ins)-1].st.alloc
	for i := len(ins) - 2; i >= 0; i-- {
		al = ite(ins[i].cond, ins[i].st.alloc, al)
	}
	out.alloc = u.define("alloc", al)
	return out
}

// rpo returns the blocks in reverse postorder ignoring back edges.
func rpo(fn *ssa.Function) []*ssa.BasicBlock {
	seen := map[*ssa.BasicBlock]bool{}
	var post []*ssa.BasicBlock
	var dfs func(b *ssa.BasicBlock)
	dfs = func(b *ssa.BasicBlock) {
		seen[b] = true
		// successors by descending block index (blocks are numbered in source order), so that the
		// reverse postorder follows the source order: ordinals of anchors and obligations are stable
		succs := append([]*ssa.BasicBlock{}, b.Succs...)
		sort.Slice(succs, func(i, j int) bool { return succs[i].Index > succs[j].Index })
		for _, s := range succs {
			if !seen[s] && !s.Dominates(b) {
				dfs(s)
			}
		}
		post = append(post, b)
	}
	dfs(fn.Blocks[0])
	for i, j := 0, len(post)-1; i < j; i, j = i+1, j-1 {
		post[i], post[j] = post[j], post[i]
	}
	return post
}

func isBackEdge(from, to *ssa.BasicBlock) bool { return to.Dominates(from) }

func (f *Frame) findLoops() {
	f.loops = map[*ssa.BasicBlock]*loopInfo{}
	for _, b := range f.fn.Blocks {
		for _, s := range b.Succs {
			if isBackEdge(b, s) {
				li := f.loops[s]
				if li == nil {
					li = &loopInfo{header: s, blocks: map[*ssa.BasicBlock]bool{s: true}}
					f.loops[s] = li
				}
				// natural loop: everything that reaches b without passing s
				var stack []*ssa.BasicBlock
				if !li.blocks[b] {
					li.blocks[b] = true
					stack = append(stack, b)
				}
				for len(stack) > 0 {
					x := stack[len(stack)-1]
					stack = stack[:len(stack)-1]
					for _, p := range x.Preds {
						if !li.blocks[p] {
							li.blocks[p] = true
							stack = append(stack, p)
						}
					}
				}
			}
		}
	}
	if len(f.loops) == 0 {
		return
	}
	// keys from the AST: loops in source order ↔ headers in block order
	var headers []*ssa.BasicBlock
	for h := range f.loops {
		headers = append(headers, h)
	}
	sort.Slice(headers, func(i, j int) bool { return headers[i].Index < headers[j].Index })
	var stmts []ast.Node
	if syn := f.fn.Syntax(); syn != nil {
		var body *ast.BlockStmt
		switch s := syn.(type) {
		case *ast.FuncDecl:
			body = s.Body
		case *ast.FuncLit:
			body = s.Body
		}
		if body != nil {
			ast.Inspect(body, func(n ast.Node) bool {
				switch n.(type) {
				case *ast.FuncLit:
					return false
				case *ast.ForStmt, *ast.RangeStmt:
					stmts = append(stmts, n)
				}
				return true
			})
		}
	}
	counts := map[string]int{}
	for i, h := range headers {
		key := fmt.Sprintf("loop@block%d", h.Index)
		if len(stmts) == len(headers) {
			switch s := stmts[i].(type) {
			case *ast.RangeStmt:
				key = "range " + f.u.eng.exprText(s.X)
			case *ast.ForStmt:
				key = strings.TrimSpace("for " + f.u.eng.exprText(s.Cond))
			}
		}
		n := counts[key]
		counts[key] = n + 1
		f.loops[h].key = fmt.Sprintf("%s #%d", key, n)
	}
	if f.contract != nil {
		used := map[string]bool{}
		for _, li := range f.loops {
			if ls, ok := f.contract.Loops[li.key]; ok {
				li.spec = ls
				used[li.key] = true
			} else if strings.HasSuffix(li.key, " #0") {
				if ls, ok := f.contract.Loops[strings.TrimSuffix(li.key, " #0")]; ok {
					li.spec = ls
					used[ls.Key] = true
				}
			}
		}
		if len(f.contract.LoopInv) > 0 {
			for _, li := range f.loops {
				if li.spec != nil && li.spec.NoDefault {
					continue
				}
				ns := &LoopSpec{Key: li.key}
				if li.spec != nil {
					*ns = *li.spec
				}
				ns.Invariants = append(append([]Clause{}, f.contract.LoopInv...), ns.Invariants...)
				li.spec = ns
			}
		}
		for k := range f.contract.Loops {
			if !used[k] {
				var have []string
				for _, li := range f.loops {
					have = append(have, li.key)
				}
				sort.Strings(have)
				panic(unsupported(fmt.Sprintf("%s: contract names loop %q which does not exist (loops: %s)", f.contract.Func, k, strings.Join(have, "; "))))
			}
		}
	}
}

type runCtx struct {
	out  map[*ssa.BasicBlock]*State
	edge map[[2]int]T
}

// run executes the body. Returns merged result values and the final state.
func (f *Frame) run(st *State) ([]*V, *State) {
	u := f.u
	fn := f.fn
	if len(fn.Blocks) == 0 {
		f.fail("function has no body")
	}
	f.findLoops()
	f.indexVars()
	f.order = rpo(fn)
	rc := &runCtx{out: map[*ssa.BasicBlock]*State{}, edge: map[[2]int]T{}}
	nlocals := len(u.localRefs)
	f.runBlocks(rc, nil, nil, st)
	u.localRefs = u.localRefs[:nlocals]
	// merge returns
	if len(f.rets) == 0 {
		return nil, &State{reach: tFalse, heap: st.heap, alloc: st.alloc, epoch: st.epoch}
	}
	var ins []edgeIn
	for _, r := range f.rets {
		ins = append(ins, edgeIn{cond: r.st.reach, st: r.st})
	}
	final := u.mergeStates(ins)
	var res []*V
	n := len(f.rets[0].vals)
	for i := 0; i < n; i++ {
		v := f.rets[len(f.rets)-1].vals[i]
		for j := len(f.rets) - 2; j >= 0; j-- {
			v = u.iteVal(f.rets[j].st.reach, f.rets[j].vals[i], v)
		}
		res = append(res, u.nameVal("ret", v))
	}
	return res, final
}

// runBlocks executes the blocks of region (nil = whole function) in reverse
// postorder. When dryHeader is set, execution starts there with state st and
// back edges to it are ignored (first-iteration dry run of a loop).
func (f *Frame) runBlocks(rc *runCtx, region map[*ssa.BasicBlock]bool, dryHeader *ssa.BasicBlock, st *State) {
	u := f.u
	fn := f.fn
	out, edge := rc.out, rc.edge
	for _, b := range f.order {
		if region != nil && !region[b] {
			continue
		}
		var cur *State
		if (dryHeader == nil && b == fn.Blocks[0]) || b == dryHeader {
			cur = st
		} else {
			var ins []edgeIn
			for _, p := range b.Preds {
				if isBackEdge(p, b) {
					continue
				}
				ps, ok := out[p]
				if !ok {
					continue // unreachable predecessor (e.g. after panic)
				}
				c, ok := edge[[2]int{p.Index, b.Index}]
				if !ok {
					continue
				}
				ins = append(ins, edgeIn{c, ps, p})
			}
			if len(ins) == 0 {
				continue
			}
			cur = u.mergeStates(ins)
			// phis
			for _, ins2 := range b.Instrs {
				phi, ok := ins2.(*ssa.Phi)
				if !ok {
					break
				}
				var v *V
				first := true
				for i := len(b.Preds) - 1; i >= 0; i-- {
					p := b.Preds[i]
					if isBackEdge(p, b) {
						continue
					}
					c, ok := edge[[2]int{p.Index, b.Index}]
					if !ok || out[p] == nil {
						continue
					}
					pv := f.val(phi.Edges[i])
					if first {
						v = pv
						first = false
					} else {
						v = u.iteVal(c, pv, v)
					}
				}
				f.vals[phi] = u.nameVal(phi.Name(), v)
			}
		}
		if li := f.loops[b]; li != nil && b != dryHeader {
			f.enterLoop(li, cur, rc)
		}
		f.curBlock = b
		f.execBlock(b, cur)
		out[b] = cur
		// terminator → edge conditions
		last := b.Instrs[len(b.Instrs)-1]
		switch t := last.(type) {
		case *ssa.If:
			c := f.val(t.Cond).T
			edge[[2]int{b.Index, b.Succs[0].Index}] = and(cur.reach, c)
			edge[[2]int{b.Index, b.Succs[1].Index}] = and(cur.reach, not(c))
		case *ssa.Jump:
			edge[[2]int{b.Index, b.Succs[0].Index}] = cur.reach
		}
		for i, s := range b.Succs {
			_ = i
			if isBackEdge(b, s) && s != dryHeader {
				if li := f.loops[s]; li != nil && li.pre != nil {
					f.backEdge(li, b, cur, edge[[2]int{b.Index, s.Index}])
				}
			}
		}
	}
}

func (f *Frame) val(v ssa.Value) *V {
	switch x := v.(type) {
	case *ssa.Const:
		return f.u.constVal(x)
	case *ssa.Global:
		return f.u.globalPtr(x)
	case *ssa.Function:
		return &V{Typ: x.Type(), Fn: &Closure{Fn: x}}
	case *ssa.Builtin:
		f.fail("builtin %s used as value", x.Name())
	}
	if r, ok := f.vals[v]; ok {
		return r
	}
	f.fail("no value for %s (%T) — instruction in an unreachable or unsupported position", v.Name(), v)
	return nil
}

func (u *Unit) globalPtr(g *ssa.Global) *V {
	name := g.Pkg.Pkg.Name() + "." + g.Name()
	et := g.Type().(*types.Pointer).Elem()
	if !isTime(et) {
		switch et.Underlying().(type) {
		case *types.Struct, *types.Array:
			idx, ok := u.tagOf["g:"+name]
			if !ok {
				idx = len(u.tagOf) + 1
				u.tagOf["g:"+name] = idx
			}
			return &V{Typ: g.Type(), T: intLit(int64(idx))}
		}
	}
	if u.eng.GlobalImmutable(g) {
		u.immutableGlobal["G:"+name] = true
		for _, l := range flatten(et) {
			u.immutableGlobal["G:"+name+l.Path] = true
		}
	}
	if u.eng.sentinelErrs[g] && !u.declared["sentinel:"+name] {
		u.declared["sentinel:"+name] = true
		me := sel(u.epochInit("G:"+name, arrSort(SInt, SInt), 0), intLit(0))
		u.emitFact(app(SBool, ">", me, intLit(0)))
		// a package-level error value exists since package initialisation
		u.emitFact(app(SBool, "<=", me, intLit(1000)))
		for _, o := range u.sentinels {
			u.emitFact(not(eq(me, o)))
		}
		u.sentinels = append(u.sentinels, me)
	}
	return &V{Typ: g.Type(), LV: &LVal{Kind: "cell", Base: intLit(0), Key: "G:" + name, Typ: et}}
}

func (f *Frame) anchorOf(kind string, pos token.Pos, fallback string) string {
	return f.anchor + kind + " " + fallback
}

// posText finds the source text of the smallest expression enclosing pos.
func (f *Frame) posText(pos token.Pos) string {
	e := f.u.eng
	if !pos.IsValid() {
		return ""
	}
	file := e.syntaxFile(pos)
	if file == nil {
		return ""
	}
	var best ast.Node
	ast.Inspect(file, func(n ast.Node) bool {
		if n == nil {
			return false
		}
		if n.Pos() <= pos && pos < n.End() {
			if _, ok := n.(ast.Expr); ok {
				best = n
			}
			return true
		}
		return false
	})
	if best == nil {
		return ""
	}
	t := e.exprText(best)
	if len(t) > 80 {
		t = t[:80]
	}
	return t
}
