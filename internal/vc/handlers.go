package vc

import (
	"fmt"
	"go/constant"
	"go/types"
	"sort"
	"strings"

	"golang.org/x/tools/go/ssa"
)

// Registration is one `Commands[name] = &ircCommand{Func: F, MinParams: N}`
// found in an init function of internal/ircserver.
type Registration struct {
	Name      string
	Handler   *ssa.Function
	MinParams int64
	In        string
}

// ScanRegistrations reads the command table out of the SSA of the package's
// init functions. Any store into Commands that does not have the recognised
// shape is an error (so a new registration style cannot go unnoticed).
func (e *Engine) ScanRegistrations(pkgName, mapName string) ([]Registration, error) {
	var regs []Registration
	var aliases [][3]string
	var pkg *ssa.Package
	for _, p := range e.Prog.AllPackages() {
		if p != nil && p.Pkg.Name() == pkgName && strings.HasPrefix(p.Pkg.Path(), RepoModule) {
			pkg = p
		}
	}
	if pkg == nil {
		return nil, fmt.Errorf("package %s not loaded", pkgName)
	}
	g, _ := pkg.Members[mapName].(*ssa.Global)
	if g == nil {
		return nil, fmt.Errorf("global %s.%s not found", pkgName, mapName)
	}
	for _, mem := range pkg.Members {
		fn, ok := mem.(*ssa.Function)
		if !ok {
			continue
		}
		fns := []*ssa.Function{fn}
		fns = append(fns, fn.AnonFuncs...)
		for _, f := range fns {
			isInit := f.Name() == "init" || strings.HasPrefix(f.Name(), "init#")
			for _, b := range f.Blocks {
				for _, ins := range b.Instrs {
					mu, ok := ins.(*ssa.MapUpdate)
					if !ok {
						continue
					}
					ld, ok := mu.Map.(*ssa.UnOp)
					if !ok || ld.X != g {
						continue
					}
					if !isInit {
						return nil, fmt.Errorf("%s is written outside an init function (%s)", mapName, ShortName(f))
					}
					key, ok := mu.Key.(*ssa.Const)
					if !ok {
						return nil, fmt.Errorf("%s: registration with a non-constant name in %s", mapName, ShortName(f))
					}
					r := Registration{Name: constant.StringVal(key.Value), In: ShortName(f)}
					if lk, ok := mu.Value.(*ssa.Lookup); ok {
						// alias: Commands[a] = Commands[b]
						ld2, ok1 := lk.X.(*ssa.UnOp)
						k2, ok2 := lk.Index.(*ssa.Const)
						if !ok1 || !ok2 || ld2.X != g || lk.CommaOk {
							return nil, fmt.Errorf("%s[%s]: unrecognised registration shape", mapName, key.Value)
						}
						aliases = append(aliases, [3]string{r.Name, constant.StringVal(k2.Value), r.In})
						continue
					}
					alloc, ok := mu.Value.(*ssa.Alloc)
					if !ok {
						return nil, fmt.Errorf("%s[%s]: unrecognised registration shape", mapName, key.Value)
					}
					for _, ref := range *alloc.Referrers() {
						fa, ok := ref.(*ssa.FieldAddr)
						if !ok {
							continue
						}
						for _, r2 := range *fa.Referrers() {
							st, ok := r2.(*ssa.Store)
							if !ok || st.Addr != fa {
								continue
							}
							switch fa.Field {
							case 0:
								h := handlerTarget(st.Val)
								if h == nil {
									return nil, fmt.Errorf("%s[%s]: cannot resolve handler function", mapName, r.Name)
								}
								r.Handler = h
							case 1:
								c, ok := st.Val.(*ssa.Const)
								if !ok {
									return nil, fmt.Errorf("%s[%s]: MinParams is not a constant", mapName, r.Name)
								}
								r.MinParams, _ = constant.Int64Val(c.Value)
							}
						}
					}
					if r.Handler == nil {
						return nil, fmt.Errorf("%s[%s]: no handler", mapName, r.Name)
					}
					regs = append(regs, r)
				}
			}
		}
	}
	initNo := func(s string) int {
		n := 0
		if i := strings.LastIndex(s, "#"); i >= 0 {
			fmt.Sscanf(s[i+1:], "%d", &n)
		}
		return n
	}
	for _, a := range aliases {
		found := false
		for _, r := range regs {
			if r.Name == a[1] {
				// package initialisers run in source order: the target must be registered first
				if initNo(r.In) >= initNo(a[2]) {
					return nil, fmt.Errorf("%s[%s] = %s[%s] runs before the target is registered", mapName, a[0], mapName, a[1])
				}
				regs = append(regs, Registration{Name: a[0], Handler: r.Handler, MinParams: r.MinParams, In: a[2]})
				found = true
				break
			}
		}
		if !found {
			return nil, fmt.Errorf("%s[%s] aliases unregistered %s", mapName, a[0], a[1])
		}
	}
	sort.Slice(regs, func(i, j int) bool { return regs[i].Name < regs[j].Name })
	return regs, nil
}

func handlerTarget(v ssa.Value) *ssa.Function {
	switch x := v.(type) {
	case *ssa.Function:
		if strings.HasSuffix(x.Name(), "$thunk") || strings.HasSuffix(x.Name(), "$bound") {
			// the thunk's body is a single call to the method
			for _, b := range x.Blocks {
				for _, ins := range b.Instrs {
					if c, ok := ins.(*ssa.Call); ok {
						if sc := c.Call.StaticCallee(); sc != nil {
							return sc
						}
					}
				}
			}
			return nil
		}
		return x
	case *ssa.MakeClosure:
		if f, ok := x.Fn.(*ssa.Function); ok {
			return f
		}
	case *ssa.ChangeType:
		return handlerTarget(x.X)
	}
	return nil
}

// SynthesizeHandlerContracts gives every registered handler the clauses of
// the template contract (in addition to its own), plus
// `requires params: len(msg.Params) >= min MinParams of its registrations`
// unless the handler states a params clause itself.
func (e *Engine) SynthesizeHandlerContracts(regs []Registration, template string) error {
	tpl := e.Specs.Contracts[template]
	if tpl == nil {
		return fmt.Errorf("template contract %s not found", template)
	}
	minP := map[*ssa.Function]int64{}
	onlyServices := map[*ssa.Function]bool{}
	for _, r := range regs {
		if m, ok := minP[r.Handler]; !ok || r.MinParams < m {
			minP[r.Handler] = r.MinParams
		}
		if _, seen := onlyServices[r.Handler]; !seen {
			onlyServices[r.Handler] = true
		}
		if !strings.HasPrefix(r.Name, "server_") {
			onlyServices[r.Handler] = false
		}
	}
	for h, m := range minP {
		name := ShortName(h)
		if h.Parent() != nil {
			continue // test-only closure (PANIC command)
		}
		// parameter names must match the template's
		want := []string{"i", "s", "reply", "msg"}
		if len(h.Params) != 4 {
			return fmt.Errorf("handler %s: unexpected signature", name)
		}
		for k, p := range h.Params {
			if p.Name() != want[k] {
				return fmt.Errorf("handler %s: parameter %d is named %q, the handler template expects %q", name, k, p.Name(), want[k])
			}
		}
		ct := e.Specs.Contracts[name]
		if ct == nil {
			ct = &Contract{Func: name, Loops: map[string]*LoopSpec{}, Opts: map[string]string{}, Origin: "synthesised from " + template}
			e.Specs.Contracts[name] = ct
		}
		if ct.Opts["inherited"] == "true" {
			continue
		}
		ct.Opts["inherited"] = "true"
		hasParams := false
		hasRole := false
		for _, r := range ct.Requires {
			if r.Label == "params" {
				hasParams = true
			}
			if r.Label == "role" {
				hasRole = true
			}
		}
		if onlyServices[h] && !hasRole {
			ex, _ := ParseExpr("s.Server")
			ct.Requires = append(ct.Requires, Clause{Label: "role", E: ex, Src: "s.Server"})
		}
		var req []Clause
		req = append(req, tpl.Requires...)
		if !hasParams && m > 0 {
			src := fmt.Sprintf("len(msg.Params) >= %d", m)
			ex, _ := ParseExpr(src)
			req = append(req, Clause{Label: "params", E: ex, Src: src})
		}
		ct.Requires = append(req, ct.Requires...)
		ct.Ensures = append(append([]Clause{}, tpl.Ensures...), ct.Ensures...)
		if !ct.HasMod {
			ct.HasMod = tpl.HasMod
			ct.Modifies = tpl.Modifies
		}
		ct.LoopInv = append(append([]Clause{}, tpl.LoopInv...), ct.LoopInv...)
		ct.Asserts = append(append([]AnchorAssert{}, tpl.Asserts...), ct.Asserts...)
	}
	return nil
}

// ParamsBound extracts K from a `requires params: len(msg.Params) >= K` clause.
func ParamsBound(ct *Contract) int64 {
	if ct == nil {
		return 0
	}
	for _, r := range ct.Requires {
		if r.Label != "params" {
			continue
		}
		if b, ok := r.E.(*EBin); ok && b.Op == ">=" {
			if n, ok := b.Y.(*EInt); ok {
				var k int64
				fmt.Sscanf(n.V, "%d", &k)
				return k
			}
		}
		return -1
	}
	return 0
}

// HandlerDynHook resolves the call cmd.Func(i, s, reply, ircmsg) in
// ProcessMessage: the callee is some registered handler, so the template
// contract applies; that every registered handler's own precondition follows
// from the template plus the MinParams gate is a separate (structural +
// lemma) obligation. For registrations whose name starts with rolePrefix the
// session must be a services link: proved here from the way the key is built.
func (e *Engine) HandlerDynHook(regs []Registration, template, dispatch, rolePrefix string) DynHook {
	return func(f *Frame, instr ssa.Instruction, c *ssa.CallCommon, fv *V, args []*V, st *State) ([]*V, bool) {
		u := f.u
		tpl := e.Specs.Contracts[template]
		if tpl == nil || len(args) != 4 {
			return nil, false
		}
		// find the key of the table lookup that produced the function value
		var key *V
		if ld, ok := c.Value.(*ssa.UnOp); ok {
			if fa, ok := ld.X.(*ssa.FieldAddr); ok {
				if ex, ok := fa.X.(*ssa.Extract); ok {
					if lk, ok := ex.Tuple.(*ssa.Lookup); ok {
						key = f.val(lk.Index)
					}
				}
			}
		}
		if key == nil {
			f.fail("dynamic handler call: cannot find the table lookup")
		}
		// role obligations: what the gate in ProcessMessage guarantees for the handler registered
		// under each name (services handlers only for services links; client handlers never for
		// services links, and only after registration unless the command is one of the
		// pre-registration commands)
		sess := args[1]
		ldb := func(field string) T {
			return f.load(st, &V{Typ: types.NewPointer(types.Typ[types.Bool]), LV: &LVal{Kind: "field", Base: sess.T, Key: "F:ircserver.Session." + field, Typ: types.Typ[types.Bool]}}).T
		}
		srv, logged := ldb("Server"), ldb("loggedIn")
		var conds []T
		for _, r := range regs {
			conds = append(conds, implies(eq(key.T, u.strLit(r.Name)), e.roleFact(r.Name, dispatch, rolePrefix, srv, logged)))
		}
		u.oblige(st, "assert", f.anchor+"dispatch/role and registration gate", and(conds...), "services handlers run only for services links, client handlers only for registered non-services sessions (pre-registration commands excepted)")
		// the lookup succeeded (the call is only reached with ok == true) and the table holds exactly the
		// scanned registrations: the key is one of the registered names
		var isName []T
		for _, r := range regs {
			isName = append(isName, eq(key.T, u.strLit(r.Name)))
		}
		u.assume(st, or(isName...))
		u.note("the command table holds exactly the registrations found in the init functions (" + fmt.Sprint(len(regs)) + " names)")
		tplCopy := *tpl
		if d := e.Specs.Contracts[dispatch]; d != nil {
			// facts ProcessMessage guarantees at the dispatch beyond the template
			tplCopy.Requires = append(append([]Clause{}, tpl.Requires...), d.Requires...)
		}
		res := f.applyContractNamed(instr, &tplCopy, c.Signature(), template, args, []string{"i", "s", "reply", "msg"}, st)
		return res, true
	}
}

// applyContractNamed is applyContract with explicit parameter names.
func (f *Frame) applyContractNamed(instr ssa.Instruction, ct *Contract, sig *types.Signature, name string, args []*V, names []string, st *State) []*V {
	u := f.u
	env := map[string]*V{}
	for i, a := range args {
		if i < len(names) {
			env[names[i]] = a
		}
	}
	pkg := pkgOf(f.fn)
	pre := st.clone()
	ctx := &SpecCtx{u: u, st: st, old: pre, env: env, pkg: pkg, fr: f}
	ord := f.callOrd[name]
	f.callOrd[name] = ord + 1
	for i, r := range ct.Requires {
		label := r.Label
		if label == "" {
			label = fmt.Sprintf("%d", i)
		}
		u.oblige(st, "pre", fmt.Sprintf("%scall %s#%d/requires %s", f.anchor, name, ord, label), ctx.evalBool(r.E), "precondition of "+name+": "+r.Src)
	}
	f.havocFootprint(ct, ctx, pre, st)
	res := f.freshResults(st, sig, "ret!"+name)
	bindResults(env, sig, res)
	for _, e := range ct.Ensures {
		u.assume(st, ctx.evalBool(e.E))
	}
	return res
}

// GateLemma builds the unit that proves: template requires + dispatch facts +
// MinParams gate  ==>  every requires clause of the handler (except those
// labelled conforming*, which are assumptions about services input).
func (e *Engine) GateLemma(h *ssa.Function, minParams int64, names []string, template, dispatch, rolePrefix string) (u *Unit, err error) {
	name := ShortName(h)
	u = newUnit(e, "ircserver.dispatch-lemma/"+name)
	defer func() {
		if r := recover(); r != nil {
			if ue, ok := r.(unsupportedErr); ok {
				err = fmt.Errorf("gate lemma %s: %s", name, ue.Error())
				return
			}
			panic(r)
		}
	}()
	st := &State{reach: tTrue, heap: map[string]T{}}
	st.alloc = u.fresh("alloc0", SInt)
	u.alloc0 = st.alloc
	u.emitFact(app(SBool, ">=", st.alloc, intLit(1000)))
	env := map[string]*V{}
	for _, p := range h.Params {
		env[p.Name()] = u.freshVal(st, p.Type(), "p!"+p.Name())
	}
	ctx := &SpecCtx{u: u, st: st, old: st, env: env, pkg: pkgOf(h)}
	for _, tn := range []string{template, dispatch} {
		if ct := e.Specs.Contracts[tn]; ct != nil {
			for _, r := range ct.Requires {
				u.assume(st, ctx.evalBool(r.E))
			}
		}
	}
	if pk := pkgOf(h); pk != nil {
		for k, ax := range e.Specs.Axioms {
			if e.Specs.AxiomPkg[k] == pk.Name() {
				u.assume(st, ctx.evalBool(ax.E))
			}
		}
	}
	src := fmt.Sprintf("len(msg.Params) >= %d", minParams)
	ex, _ := ParseExpr(src)
	u.assume(st, ctx.evalBool(ex))
	{
		// the handler may be registered under several names: any of their role facts may be the one that holds
		sv := env["s"]
		fr := &Frame{u: u}
		ldb := func(field string) T {
			return fr.load(st, &V{Typ: types.NewPointer(types.Typ[types.Bool]), LV: &LVal{Kind: "field", Base: sv.T, Key: "F:ircserver.Session." + field, Typ: types.Typ[types.Bool]}}).T
		}
		srv, logged := ldb("Server"), ldb("loggedIn")
		var alts []T
		for _, n := range names {
			alts = append(alts, e.roleFact(n, dispatch, rolePrefix, srv, logged))
		}
		u.assume(st, or(alts...))
	}
	u.opts = UnitOpts{Post: true}
	ct := e.Specs.Contracts[name]
	if ct != nil {
		for i, r := range ct.Requires {
			label := r.Label
			if label == "" {
				label = fmt.Sprintf("%d", i)
			}
			if strings.HasPrefix(label, "conforming") {
				u.note("services input is protocol-conforming: " + name + " assumes " + r.Src)
				continue
			}
			u.oblige(st, "gate", "requires "+label, ctx.evalBool(r.E), "dispatch establishes the precondition of "+name+": "+r.Src)
		}
	}
	return u, nil
}

func (e *Engine) preregSet(dispatch string) map[string]bool {
	out := map[string]bool{}
	if d := e.Specs.Contracts[dispatch]; d != nil {
		for _, n := range strings.Fields(d.Opts["prereg"]) {
			out[n] = true
		}
	}
	return out
}

// roleFact is what holds at the dispatch for a handler registered under name.
func (e *Engine) roleFact(name, dispatch, rolePrefix string, srv, logged T) T {
	if strings.HasPrefix(name, rolePrefix) {
		return srv
	}
	if e.preregSet(dispatch)[name] {
		return not(srv)
	}
	return and(not(srv), logged)
}

// LemmaUnit proves a contract that has no code: `func lemma_x` with
// `opt params = a T, b U`, requires and ensures. The parameters are
// arbitrary values, the heap is arbitrary.
func (e *Engine) LemmaUnit(name string, pkg *types.Package) (u *Unit, err error) {
	ct := e.Specs.Contracts[name]
	if ct == nil {
		return nil, fmt.Errorf("lemma %s not found", name)
	}
	u = newUnit(e, name)
	defer func() {
		if r := recover(); r != nil {
			if ue, ok := r.(unsupportedErr); ok {
				err = fmt.Errorf("lemma %s: %s", name, ue.Error())
				return
			}
			panic(r)
		}
	}()
	st := &State{reach: tTrue, heap: map[string]T{}}
	st.alloc = u.fresh("alloc0", SInt)
	u.alloc0 = st.alloc
	u.emitFact(app(SBool, ">=", st.alloc, intLit(1000)))
	env := map[string]*V{}
	_, params, _, perr := parseSig("l(" + ct.Opts["params"] + ")")
	if perr != nil {
		return nil, perr
	}
	for _, b := range params {
		t := e.resolveType(b.Type, pkg)
		if t == nil {
			return nil, fmt.Errorf("lemma %s: unknown type %s", name, b.Type)
		}
		env[b.Name] = u.freshVal(st, t, "p!"+b.Name)
	}
	ctx := &SpecCtx{u: u, st: st, old: st, env: env, pkg: pkg}
	for _, r := range ct.Requires {
		u.assume(st, ctx.evalBool(r.E))
	}
	u.opts = UnitOpts{Post: true}
	u.cover = true
	u.coverCheck(st, "requires")
	for i, en := range ct.Ensures {
		label := en.Label
		if label == "" {
			label = fmt.Sprintf("%d", i)
		}
		u.oblige(st, "lemma", label, ctx.evalGoal(en.E), "lemma "+name+": "+en.Src)
	}
	return u, nil
}

// PkgByName finds a loaded repo package by its name.
func (e *Engine) PkgByName(name string) *types.Package {
	for _, p := range e.AllPkgs {
		if p.Types != nil && p.Types.Name() == name && strings.HasPrefix(p.PkgPath, RepoModule) {
			return p.Types
		}
	}
	return nil
}
