package vc

import (
	"fmt"
	"go/token"
	"go/types"
	"sort"
	"strings"

	"golang.org/x/tools/go/ssa"
)

func (f *Frame) nopanic(st *State, site string, pos token.Pos, safe T, what string) {
	if !f.u.nopanic {
		// not an obligation of this property: assume the site is safe
		f.u.assume(st, safe)
		return
	}
	txt := f.posText(pos)
	anchor := f.anchor + site
	if txt != "" {
		anchor += " " + txt
	}
	f.u.oblige(st, "nopanic", anchor, safe, what)
}

func (f *Frame) execBlock(b *ssa.BasicBlock, st *State) {
	for i, ins := range b.Instrs {
		f.curIdx = i
		f.execInstr(ins, st)
	}
}

func (f *Frame) set(v ssa.Value, x *V) {
	if x != nil && x.Typ == nil {
		x.Typ = v.Type()
	}
	f.vals[v] = x
}

func (f *Frame) execInstr(ins ssa.Instruction, st *State) {
	u := f.u
	switch x := ins.(type) {
	case *ssa.DebugRef, *ssa.Phi:
		return
	case *ssa.Alloc:
		et := x.Type().(*types.Pointer).Elem()
		ref := u.newRef(st, x.Name())
		p := &V{Typ: x.Type(), T: ref}
		if !x.Heap {
			// a local variable that does not escape: nobody else can write it
			u.localRefs = append(u.localRefs, ref)
		}
		if at, ok := et.Underlying().(*types.Array); ok && !isTime(et) {
			u.zeroElems(st, at.Elem(), ref)
		} else {
			u.storeObjZero(st, et, ref)
		}
		// ghost fields of a new object start at their zero value (empty set, 0, false)
		for _, g := range u.eng.Specs.GhostFields {
			if gi := u.eng.ghostOf(et, g.Name); gi != nil {
				z := u.zeroVal(gi.typ).T
				u.write(st, gi.key, ref, func(h T) T { return sto(h, ref, z) }, gi.sort)
			}
		}
		f.set(x, p)
	case *ssa.FieldAddr:
		p := f.val(x.X)
		stT := p.Typ.Underlying().(*types.Pointer).Elem()
		sUnder := stT.Underlying().(*types.Struct)
		fld := sUnder.Field(x.Field)
		ft := fld.Type()
		if p.LV != nil {
			if p.LV.Kind != "elem" {
				f.fail("FieldAddr on %s lvalue", p.LV.Kind)
			}
			lv := *p.LV
			lv.Key += "." + fld.Name()
			lv.Typ = ft
			f.set(x, &V{Typ: x.Type(), LV: &lv})
			return
		}
		f.nopanic(st, "nil-deref", x.Pos(), not(eq(p.T, intLit(0))), "pointer is not nil at field access ."+fld.Name())
		if u.eng.LockMode {
			f.guardCheck(x, stT, fld.Name(), st)
		}
		if !isTime(ft) && !isOpaqueArr(ft) {
			switch ft.Underlying().(type) {
			case *types.Struct, *types.Array:
				f.set(x, &V{Typ: x.Type(), T: u.emb(structKey(stT), fld.Name(), p.T)})
				return
			}
		}
		f.set(x, &V{Typ: x.Type(), LV: &LVal{Kind: "field", Base: p.T, Key: "F:" + structKey(stT) + "." + fld.Name(), Typ: ft}})
	case *ssa.Field:
		s := f.val(x.X)
		f.set(x, s.F[x.Field])
	case *ssa.IndexAddr:
		base := f.val(x.X)
		idx := f.val(x.Index).T
		switch bt := base.Typ.Underlying().(type) {
		case *types.Slice:
			f.nopanic(st, "index", x.Pos(), and(app(SBool, "<=", intLit(0), idx), app(SBool, "<", idx, base.Sl.Len)), "slice index in range")
			f.set(x, &V{Typ: x.Type(), LV: &LVal{Kind: "elem", Base: base.Sl.Arr, Idx: u.define("idx", u.sidx(base.Sl.Off, idx)), Key: "E:" + typeKey(bt.Elem()), Typ: bt.Elem()}})
		case *types.Pointer:
			at := bt.Elem().Underlying().(*types.Array)
			if base.LV != nil {
				f.fail("IndexAddr through interior pointer")
			}
			f.nopanic(st, "nil-deref", x.Pos(), not(eq(base.T, intLit(0))), "array pointer is not nil")
			f.nopanic(st, "index", x.Pos(), and(app(SBool, "<=", intLit(0), idx), app(SBool, "<", idx, intLit(at.Len()))), "array index in range")
			f.set(x, &V{Typ: x.Type(), LV: &LVal{Kind: "elem", Base: base.T, Idx: idx, Key: "E:" + typeKey(at.Elem()), Typ: at.Elem()}})
		default:
			f.fail("IndexAddr on %s", typeKey(base.Typ))
		}
	case *ssa.Index:
		base := f.val(x.X)
		idx := f.val(x.Index).T
		switch bt := base.Typ.Underlying().(type) {
		case *types.Array:
			f.nopanic(st, "index", x.Pos(), and(app(SBool, "<=", intLit(0), idx), app(SBool, "<", idx, intLit(bt.Len()))), "array index in range")
			f.set(x, &V{Typ: x.Type(), T: sel(base.T, idx)})
		default:
			if base.T.Sort == SStr {
				f.nopanic(st, "index", x.Pos(), and(app(SBool, "<=", intLit(0), idx), app(SBool, "<", idx, strLen(base.T))), "string index in range")
				f.set(x, &V{Typ: x.Type(), T: strAt(base.T, idx)})
				return
			}
			f.fail("Index on %s", typeKey(base.Typ))
		}
	case *ssa.Lookup:
		base := f.val(x.X)
		if _, ok := base.Typ.Underlying().(*types.Map); ok {
			mk := u.mapKeysOf(base.Typ)
			k := u.keyTerm(f.val(x.Index))
			if x.CommaOk {
				has := u.mapHas(st, mk, base.T, k)
				v := u.mapGet(st, mk, base.T, k)
				f.set(x, u.nameVal(x.Name(), &V{Typ: x.Type(), F: []*V{v, {Typ: types.Typ[types.Bool], T: has}}}))
			} else {
				f.set(x, u.nameVal(x.Name(), u.mapGet(st, mk, base.T, k)))
			}
			return
		}
		// string index
		idx := f.val(x.Index).T
		f.nopanic(st, "index", x.Pos(), and(app(SBool, "<=", intLit(0), idx), app(SBool, "<", idx, strLen(base.T))), "string index in range")
		f.set(x, &V{Typ: x.Type(), T: strAt(base.T, idx)})
	case *ssa.UnOp:
		f.execUnOp(x, st)
	case *ssa.BinOp:
		a, b := f.val(x.X), f.val(x.Y)
		f.set(x, u.nameVal(x.Name(), f.binop(st, x.Op, a, b, x.Type(), x.Pos())))
	case *ssa.Store:
		if path := f.ssaPath(x.Addr); path != "" && strings.Contains(path, ".") {
			f.curCallArgs = []*V{f.val(x.Val)}
			f.anchorsAt("store", path, st)
		}
		p := f.val(x.Addr)
		if p.LV == nil {
			f.nopanic(st, "nil-deref", x.Pos(), not(eq(p.T, intLit(0))), "store through non-nil pointer")
		}
		f.store(st, p, f.val(x.Val))
	case *ssa.MapUpdate:
		m := f.val(x.Map)
		if path := f.ssaPath(x.Map); path != "" {
			f.curCallArgs = []*V{f.val(x.Key), f.val(x.Value)}
			f.anchorsAt("mapupdate", path, st)
		}
		mk := u.mapKeysOf(m.Typ)
		f.nopanic(st, "nil-map-write", x.Pos(), not(eq(m.T, intLit(0))), "assignment to entry in non-nil map")
		u.mapSet(st, mk, m.T, u.keyTerm(f.val(x.Key)), f.val(x.Value))
	case *ssa.MakeMap:
		ref := u.newRef(st, x.Name())
		mk := u.mapKeysOf(x.Type())
		u.write(st, mk.dom, ref, func(h T) T {
			return sto(h, ref, T{fmt.Sprintf("((as const %s) false)", arrSort(mk.ks, SBool)), arrSort(mk.ks, SBool)})
		}, arrSort(SInt, arrSort(mk.ks, SBool)))
		u.write(st, mk.card, ref, func(h T) T { return sto(h, ref, intLit(0)) }, arrSort(SInt, SInt))
		f.set(x, &V{Typ: x.Type(), T: ref})
	case *ssa.MakeChan:
		f.set(x, &V{Typ: x.Type(), T: u.newRef(st, x.Name())})
	case *ssa.MakeSlice:
		ln, cp := f.val(x.Len).T, f.val(x.Cap).T
		f.nopanic(st, "makeslice", x.Pos(), and(app(SBool, "<=", intLit(0), ln), app(SBool, "<=", ln, cp)), "make: 0 <= len <= cap")
		et := x.Type().Underlying().(*types.Slice).Elem()
		arr := u.newRef(st, x.Name())
		u.zeroElems(st, et, arr)
		f.set(x, &V{Typ: x.Type(), Sl: &SliceParts{arr, intLit(0), ln, cp}})
	case *ssa.MakeClosure:
		var bind []*V
		for _, b := range x.Bindings {
			bind = append(bind, f.val(b))
		}
		f.set(x, &V{Typ: x.Type(), Fn: &Closure{Fn: x.Fn, Bind: bind}})
	case *ssa.MakeInterface:
		f.set(x, u.box(st, f.val(x.X), x.Type()))
	case *ssa.ChangeType:
		v := *f.val(x.X)
		v.Typ = x.Type()
		f.set(x, &v)
	case *ssa.ChangeInterface:
		v := *f.val(x.X)
		v.Typ = x.Type()
		f.set(x, &v)
	case *ssa.Convert:
		f.set(x, u.nameVal(x.Name(), f.convert(st, f.val(x.X), x.Type(), x.Pos())))
	case *ssa.Slice:
		f.execSlice(x, st)
	case *ssa.Extract:
		t := f.val(x.Tuple)
		f.set(x, t.F[x.Index])
	case *ssa.TypeAssert:
		f.execTypeAssert(x, st)
	case *ssa.Range:
		f.execRange(x, st)
	case *ssa.Next:
		f.execNext(x, st)
	case *ssa.Call:
		res := f.execCall(x, &x.Call, st)
		if res != nil {
			f.set(x, res)
		}
	case *ssa.Defer:
		for _, li := range f.loops {
			if li.blocks[x.Block()] {
				f.fail("defer inside a loop")
			}
		}
		f.defers = append(f.defers, &deferRec{guard: st.reach, call: &x.Call, instr: x})
	case *ssa.RunDefers:
		for i := len(f.defers) - 1; i >= 0; i-- {
			d := f.defers[i]
			f.runDeferred(d, st)
		}
	case *ssa.Go:
		u.note("goroutine started in " + ShortName(f.fn) + " (body not followed)")
	case *ssa.Return:
		var vs []*V
		for _, r := range x.Results {
			vs = append(vs, f.val(r))
		}
		f.rets = append(f.rets, retRec{st: st.clone(), vals: vs})
		if f.top {
			f.curCallArgs = vs
			f.anchorsAt("return", "", st)
			// also addressable by the text of the returned expressions: assert@return snapshot.LastIncludedIndex, nil#0
			if txt := u.eng.ReturnTextAt(x.Pos()); txt != "" {
				f.anchorsAt("return", txt, st)
			}
			f.checkPost(st, vs)
		}
	case *ssa.If:
		// branching is handled by run; `assert@if <condition text>#n` clauses are evaluated here, in the
		// state in which the condition is tested (after the merge of whatever precedes the if statement)
		if f.top && f.contract != nil && len(f.contract.Asserts) > 0 {
			// callarg0 = the value of the condition; addressable by the source text of the condition
			// (`assert@if a < b#0`) or by position among the function's branches (`assert@if #3`)
			f.curCallArgs = []*V{f.val(x.Cond)}
			if txt := u.eng.IfCondTextAt(x.Cond.Pos()); txt != "" {
				f.anchorsAt("if", txt, st)
			}
			f.anchorsAt("if", "", st)
		}
	case *ssa.Jump:
		// handled by run
	case *ssa.Panic:
		txt := "explicit panic"
		f.nopanic(st, "panic", x.Pos(), tFalse, txt)
		st.reach = tFalse
	case *ssa.Send:
		u.note("channel send in " + ShortName(f.fn) + " treated as no-op")
		if f.top {
			if path := f.ssaPath(x.Chan); path != "" {
				f.curCallArgs = []*V{f.val(x.X)}
				f.anchorsAt("send", path, st)
			}
		}
	case *ssa.Select:
		f.execSelect(x, st)
	default:
		f.fail("instruction %T not supported", ins)
	}
}

func (u *Unit) storeObjZero(st *State, t types.Type, ref T) {
	u.storeObj(st, t, ref, u.zeroVal(t))
}

func (u *Unit) zeroElems(st *State, et types.Type, arr T) {
	for _, l := range flatten(et) {
		key := "E:" + typeKey(et) + l.Path
		inner := arrSort(SInt, l.Sort)
		var z T
		switch {
		case l.Sort == SInt:
			z = intLit(0)
		case l.Sort == SBool:
			z = tFalse
		case l.Sort == SStr:
			z = T{"s.empty", SStr}
		case l.Sort == SReal:
			z = T{"0.0", SReal}
		default:
			// array-sorted leaf: leave unconstrained
			u.write(st, key, arr, func(h T) T { return h }, arrSort(SInt, inner))
			continue
		}
		u.write(st, key, arr, func(h T) T {
			return sto(h, arr, u.constArr(inner, z))
		}, arrSort(SInt, inner))
	}
}

func (f *Frame) execUnOp(x *ssa.UnOp, st *State) {
	u := f.u
	a := f.val(x.X)
	switch x.Op {
	case token.MUL:
		if a.LV == nil {
			f.nopanic(st, "nil-deref", x.Pos(), not(eq(a.T, intLit(0))), "load through non-nil pointer")
		}
		v := u.nameVal(x.Name(), f.load(st, a))
		u.assumeTypeInv(st, v)
		f.set(x, v)
	case token.NOT:
		f.set(x, &V{Typ: x.Type(), T: not(a.T)})
	case token.SUB:
		if a.T.Sort == SReal {
			f.set(x, &V{Typ: x.Type(), T: app(SReal, "-", a.T)})
		} else {
			f.set(x, &V{Typ: x.Type(), T: u.wrapTo(app(SInt, "-", a.T), x.Type())})
		}
	case token.XOR:
		f.set(x, &V{Typ: x.Type(), T: u.wrapTo(app(SInt, "-", app(SInt, "-", a.T), intLit(1)), x.Type())})
	case token.ARROW:
		u.note("channel receive in " + ShortName(f.fn) + " yields an arbitrary value")
		f.set(x, u.freshVal(st, x.Type(), x.Name()))
	default:
		f.fail("unary operator %s", x.Op)
	}
}

func (f *Frame) binop(st *State, op token.Token, a, b *V, rt types.Type, pos token.Pos) *V {
	u := f.u
	bv := func(t T) *V { return &V{Typ: rt, T: t} }
	switch op {
	case token.EQL:
		return bv(u.valEq(a, b))
	case token.NEQ:
		return bv(not(u.valEq(a, b)))
	}
	if a.T.Sort == SStr {
		switch op {
		case token.ADD:
			return bv(strConcat(a.T, b.T))
		case token.LSS, token.LEQ, token.GTR, token.GEQ:
			lt := u.declareFun("s.lt", []Sort{SStr, SStr}, SBool)
			switch op {
			case token.LSS:
				return bv(app(SBool, lt, a.T, b.T))
			case token.GTR:
				return bv(app(SBool, lt, b.T, a.T))
			case token.LEQ:
				return bv(not(app(SBool, lt, b.T, a.T)))
			default:
				return bv(not(app(SBool, lt, a.T, b.T)))
			}
		}
	}
	if a.T.Sort == SReal {
		switch op {
		case token.ADD, token.SUB, token.MUL, token.QUO:
			return bv(app(SReal, map[token.Token]string{token.ADD: "+", token.SUB: "-", token.MUL: "*", token.QUO: "/"}[op], a.T, b.T))
		case token.LSS, token.LEQ, token.GTR, token.GEQ:
			return bv(app(SBool, map[token.Token]string{token.LSS: "<", token.LEQ: "<=", token.GTR: ">", token.GEQ: ">="}[op], a.T, b.T))
		}
	}
	if a.T.Sort == SBool {
		switch op {
		case token.AND, token.LAND:
			return bv(and(a.T, b.T))
		case token.OR, token.LOR:
			return bv(or(a.T, b.T))
		}
	}
	switch op {
	case token.ADD:
		return bv(u.wrapTo(app(SInt, "+", a.T, b.T), rt))
	case token.SUB:
		return bv(u.wrapTo(app(SInt, "-", a.T, b.T), rt))
	case token.MUL:
		return bv(u.wrapTo(app(SInt, "*", a.T, b.T), rt))
	case token.QUO:
		f.nopanic(st, "div", pos, not(eq(b.T, intLit(0))), "division by non-zero")
		return bv(u.wrapTo(truncDiv(a.T, b.T), rt))
	case token.REM:
		f.nopanic(st, "div", pos, not(eq(b.T, intLit(0))), "modulo by non-zero")
		return bv(app(SInt, "-", a.T, app(SInt, "*", b.T, truncDiv(a.T, b.T))))
	case token.LSS:
		return bv(app(SBool, "<", a.T, b.T))
	case token.LEQ:
		return bv(app(SBool, "<=", a.T, b.T))
	case token.GTR:
		return bv(app(SBool, ">", a.T, b.T))
	case token.GEQ:
		return bv(app(SBool, ">=", a.T, b.T))
	case token.SHL:
		if n, ok := smallConst(b.T); ok {
			return bv(u.wrapTo(app(SInt, "*", a.T, T{pow2big(n), SInt}), rt))
		}
	case token.SHR:
		if n, ok := smallConst(b.T); ok && isUnsigned(a.Typ) {
			return bv(app(SInt, "div", a.T, T{pow2big(n), SInt}))
		}
	}
	// remaining bit operations: uninterpreted
	fn := u.declareFun("bitop!"+op.String(), []Sort{SInt, SInt}, SInt)
	r := &V{Typ: rt, T: app(SInt, fn, a.T, b.T)}
	if isUnsigned(rt) {
		u.assume(st, app(SBool, ">=", r.T, intLit(0)))
	}
	if op == token.AND && isUnsigned(rt) {
		u.assume(st, and(app(SBool, "<=", r.T, a.T), app(SBool, "<=", r.T, b.T)))
	}
	u.note("bit operation " + op.String() + " is uninterpreted")
	return r
}

func smallConst(t T) (int, bool) {
	n := 0
	if len(t.S) == 0 || len(t.S) > 2 {
		return 0, false
	}
	for _, c := range t.S {
		if c < '0' || c > '9' {
			return 0, false
		}
		n = n*10 + int(c-'0')
	}
	return n, n < 64
}

func pow2big(n int) string {
	v := uint64(1) << uint(n)
	return fmt.Sprintf("%d", v)
}

func truncDiv(a, b T) T {
	return T{fmt.Sprintf("(ite (>= %s 0) (div %s %s) (- (div (- %s) %s)))", a.S, a.S, b.S, a.S, b.S), SInt}
}

// valEq is Go's == on two values of the same type.
func (u *Unit) valEq(a, b *V) T {
	if a.LV != nil || b.LV != nil {
		if a.LV != nil && b.LV != nil && a.LV.Key == b.LV.Key {
			return and(eq(a.LV.Base, b.LV.Base))
		}
		panic(unsupported("comparison of interior pointers"))
	}
	if a.Sl != nil || b.Sl != nil {
		// only comparison with nil is legal
		if a.Sl != nil && b.Sl != nil {
			// one side is the nil constant
			if b.Sl.Arr.S == "0" {
				return eq(a.Sl.Arr, intLit(0))
			}
			return eq(b.Sl.Arr, intLit(0))
		}
		if a.Sl != nil {
			return eq(a.Sl.Arr, intLit(0))
		}
		return eq(b.Sl.Arr, intLit(0))
	}
	if a.Fn != nil || b.Fn != nil {
		if a.Fn != nil && b.Fn == nil {
			return tFalse // closure vs nil
		}
		if b.Fn != nil && a.Fn == nil {
			return tFalse
		}
		panic(unsupported("comparison of functions"))
	}
	if a.F != nil {
		var cs []T
		for i := range a.F {
			cs = append(cs, u.valEq(a.F[i], b.F[i]))
		}
		return and(cs...)
	}
	return eq(a.T, b.T)
}

func (f *Frame) convert(st *State, a *V, to types.Type, pos token.Pos) *V {
	u := f.u
	from := a.Typ
	switch {
	case isInteger(from) && isInteger(to):
		if u.exact {
			return &V{Typ: to, T: u.wrapTo(a.T, to)}
		}
		return &V{Typ: to, T: a.T}
	case isInteger(from) && a.T.Sort == SInt && isFloat(to):
		return &V{Typ: to, T: app(SReal, "to_real", a.T)}
	case isFloat(from) && isInteger(to):
		return &V{Typ: to, T: app(SInt, "to_int", a.T)}
	case isFloat(from) && isFloat(to):
		return &V{Typ: to, T: a.T}
	}
	_, toStr := scalarSort(to)
	ts, _ := scalarSort(to)
	// string <-> []byte
	if sl, ok := to.Underlying().(*types.Slice); ok && a.T.Sort == SStr {
		_ = sl
		arr := u.newRef(st, "bytes")
		ek := "E:" + typeKey(sl.Elem())
		inner := arrSort(SInt, SInt)
		cont := u.fresh("bytes", inner)
		u.emitFact(T{fmt.Sprintf("(forall ((i!q Int)) (! (=> (and (<= 0 i!q) (< i!q (s.len %s))) (= (select %s i!q) (s.at %s i!q))) :pattern ((select %s i!q))))", a.T.S, cont.S, a.T.S, cont.S), SBool})
		u.write(st, ek, arr, func(h T) T { return sto(h, arr, cont) }, arrSort(SInt, inner))
		ln := strLen(a.T)
		return &V{Typ: to, Sl: &SliceParts{arr, intLit(0), ln, ln}}
	}
	if a.Sl != nil && toStr && ts == SStr {
		s := u.fresh("str", SStr)
		et := a.Typ.Underlying().(*types.Slice).Elem()
		cont := sel(u.heapGet(st, "E:"+typeKey(et), arrSort(SInt, arrSort(SInt, SInt))), a.Sl.Arr)
		u.assume(st, eq(strLen(s), a.Sl.Len))
		u.assume(st, T{fmt.Sprintf("(forall ((i!q Int)) (! (=> (and (<= 0 i!q) (< i!q %s)) (= (s.at %s i!q) (select %s (+ %s i!q)))) :pattern ((s.at %s i!q))))", a.Sl.Len.S, s.S, cont.S, a.Sl.Off.S, s.S), SBool})
		// the conversion is a function of the contents
		return &V{Typ: to, T: s}
	}
	if a.T.Sort == SStr && ts == SStr {
		return &V{Typ: to, T: a.T}
	}
	if isInteger(from) && ts == SStr {
		fn := u.declareFun("s.fromrune", []Sort{SInt}, SStr)
		r := app(SStr, fn, a.T)
		// a rune encodes to 1..4 bytes; ASCII to exactly itself
		u.assume(st, and(app(SBool, ">=", strLen(r), intLit(1)), app(SBool, "<=", strLen(r), intLit(4)),
			implies(and(app(SBool, ">=", a.T, intLit(0)), app(SBool, "<", a.T, intLit(128))), and(eq(strLen(r), intLit(1)), eq(strAt(r, intLit(0)), a.T)))))
		return &V{Typ: to, T: r}
	}
	if s1, ok := scalarSort(from); ok && s1 == ts && ts != "" {
		return &V{Typ: to, T: a.T}
	}
	f.fail("conversion %s -> %s", typeKey(from), typeKey(to))
	return nil
}

func isFloat(t types.Type) bool {
	b, ok := t.Underlying().(*types.Basic)
	return ok && b.Info()&types.IsFloat != 0
}

func (f *Frame) execSlice(x *ssa.Slice, st *State) {
	u := f.u
	base := f.val(x.X)
	var lo, hi T
	if x.Low != nil {
		lo = f.val(x.Low).T
	} else {
		lo = intLit(0)
	}
	if base.T.Sort == SStr {
		ln := strLen(base.T)
		if x.High != nil {
			hi = f.val(x.High).T
		} else {
			hi = ln
		}
		f.nopanic(st, "slice", x.Pos(), and(app(SBool, "<=", intLit(0), lo), app(SBool, "<=", lo, hi), app(SBool, "<=", hi, ln)), "string slice bounds in range")
		f.set(x, u.nameVal(x.Name(), &V{Typ: x.Type(), T: strSub(base.T, lo, hi)}))
		return
	}
	switch bt := base.Typ.Underlying().(type) {
	case *types.Slice:
		if x.High != nil {
			hi = f.val(x.High).T
		} else {
			hi = base.Sl.Len
		}
		mx := base.Sl.Cap
		if x.Max != nil {
			mx = f.val(x.Max).T
		}
		f.nopanic(st, "slice", x.Pos(), and(app(SBool, "<=", intLit(0), lo), app(SBool, "<=", lo, hi), app(SBool, "<=", hi, mx), app(SBool, "<=", mx, base.Sl.Cap)), "slice bounds in range")
		nv := u.nameVal(x.Name(), &V{Typ: x.Type(), Sl: &SliceParts{base.Sl.Arr, app(SInt, "+", base.Sl.Off, lo), app(SInt, "-", hi, lo), app(SInt, "-", mx, lo)}})
		if lo.S != "0" {
			// position k of the new slice is position lo+k of the old one: stated with the position symbol, so
			// that facts quantified over positions of the old slice are instantiated for elements of the new one
			a, b := u.sidx(nv.Sl.Off, T{"k!s", SInt}), u.sidx(base.Sl.Off, app(SInt, "+", lo, T{"k!s", SInt}))
			if strings.HasPrefix(a.S, "(sidx") {
				u.assume(st, T{fmt.Sprintf("(forall ((k!s Int)) (! (= %s %s) :pattern (%s)))", a.S, b.S, a.S), SBool})
			}
		}
		f.set(x, nv)
	case *types.Pointer:
		at := bt.Elem().Underlying().(*types.Array)
		n := intLit(at.Len())
		if x.High != nil {
			hi = f.val(x.High).T
		} else {
			hi = n
		}
		f.nopanic(st, "nil-deref", x.Pos(), not(eq(base.T, intLit(0))), "array pointer is not nil")
		f.nopanic(st, "slice", x.Pos(), and(app(SBool, "<=", intLit(0), lo), app(SBool, "<=", lo, hi), app(SBool, "<=", hi, n)), "slice bounds in range")
		f.set(x, u.nameVal(x.Name(), &V{Typ: x.Type(), Sl: &SliceParts{base.T, lo, app(SInt, "-", hi, lo), app(SInt, "-", n, lo)}}))
	default:
		f.fail("Slice of %s", typeKey(base.Typ))
	}
}

// ---------------------------------------------------------------------------
// interfaces

func (u *Unit) typeTag(t types.Type) int {
	k := "t:" + typeKey(t)
	if n, ok := u.tagOf[k]; ok {
		return n
	}
	n := len(u.tagOf) + 1
	u.tagOf[k] = n
	return n
}

func (u *Unit) box(st *State, v *V, it types.Type) *V {
	u.declareFun("iface.type", []Sort{SInt}, SInt)
	if _, isIface := v.Typ.Underlying().(*types.Interface); isIface {
		return &V{Typ: it, T: v.T}
	}
	if s, ok := scalarSort(v.Typ); ok && v.LV == nil && v.Fn == nil {
		tk := typeKey(v.Typ)
		bx := u.declareFun("box!"+tk, []Sort{s}, SInt)
		ub := u.declareFun("unbox!"+tk, []Sort{SInt}, s)
		tag := u.typeTag(v.Typ)
		if !u.declared["boxax:"+tk] {
			u.declared["boxax:"+tk] = true
			u.emitDecl(fmt.Sprintf("(assert (forall ((x %s)) (! (and (= (%s (%s x)) x) (> (%s x) 0) (= (iface.type (%s x)) %d)) :pattern ((%s x)))))", s, ub, bx, bx, bx, tag, bx))
		}
		return &V{Typ: it, T: app(SInt, bx, v.T)}
	}
	// opaque box: a fresh non-nil interface value with the right dynamic type
	r := u.fresh("iface", SInt)
	if v.Sl != nil {
		// remember boxed slices (sort.Slice(x, less) receives its slice as an interface value)
		if u.boxedSlices == nil {
			u.boxedSlices = map[string]*V{}
		}
		u.boxedSlices[r.S] = v
	}
	u.emitFact(and(app(SBool, ">", r, intLit(0)), eq(app(SInt, "iface.type", r), intLit(int64(u.typeTag(v.Typ))))))
	return &V{Typ: it, T: r}
}

func (f *Frame) execTypeAssert(x *ssa.TypeAssert, st *State) {
	u := f.u
	a := f.val(x.X)
	u.declareFun("iface.type", []Sort{SInt}, SInt)
	at := x.AssertedType
	var ok T
	var val *V
	if _, isIface := at.Underlying().(*types.Interface); isIface {
		okc := u.fresh("assert_ok", SBool)
		u.assume(st, implies(okc, not(eq(a.T, intLit(0)))))
		ok = okc
		val = &V{Typ: at, T: a.T}
	} else {
		tag := intLit(int64(u.typeTag(at)))
		ok = and(not(eq(a.T, intLit(0))), eq(app(SInt, "iface.type", a.T), tag))
		if s, isScalar := scalarSort(at); isScalar {
			ub := u.declareFun("unbox!"+typeKey(at), []Sort{SInt}, s)
			val = &V{Typ: at, T: app(s, ub, a.T)}
		} else {
			val = u.freshVal(st, at, x.Name())
		}
	}
	if x.CommaOk {
		z := u.zeroVal(at)
		f.set(x, &V{Typ: x.Type(), F: []*V{u.iteVal(ok, val, z), {Typ: types.Typ[types.Bool], T: ok}}})
		return
	}
	f.nopanic(st, "type-assert", x.Pos(), ok, "type assertion holds")
	f.set(x, val)
}

// ---------------------------------------------------------------------------
// range over maps

func (f *Frame) execRange(x *ssa.Range, st *State) {
	u := f.u
	m := f.val(x.X)
	if m.T.Sort == SStr {
		f.iters[x] = &iterInfo{m: m, isStr: true, seenKey: fmt.Sprintf("IT:%s:%s", ShortName(f.fn), x.Name())}
		key := f.iters[x].seenKey
		u.heapInit(key, SInt)
		st.heap[key] = intLit(0)
		f.set(x, &V{Typ: x.Type(), T: intLit(0)})
		return
	}
	mk := u.mapKeysOf(m.Typ)
	it := &iterInfo{m: m, seenKey: fmt.Sprintf("IT:%s:%s", ShortName(f.fn), x.Name())}
	f.iters[x] = it
	srt := arrSort(mk.ks, SBool)
	u.heapInit(it.seenKey, srt)
	st.heap[it.seenKey] = T{fmt.Sprintf("((as const %s) false)", srt), srt}
	f.set(x, &V{Typ: x.Type(), T: intLit(0)})
}

func (f *Frame) execNext(x *ssa.Next, st *State) {
	u := f.u
	it := f.iters[x.Iter]
	if it == nil {
		f.fail("next on unknown iterator")
	}
	tup := x.Type().(*types.Tuple)
	if it.isStr {
		pos := u.heapGet(st, it.seenKey, SInt)
		ok := app(SBool, "<", pos, strLen(it.m.T))
		width := u.fresh("runewidth", SInt)
		u.assume(st, and(app(SBool, ">=", width, intLit(1)), app(SBool, "<=", width, intLit(4)), implies(ok, app(SBool, "<=", app(SInt, "+", pos, width), strLen(it.m.T)))))
		r := u.fresh("rune", SInt)
		u.assume(st, and(app(SBool, ">=", r, intLit(0)), implies(eq(width, intLit(1)), eq(r, strAt(it.m.T, pos)))))
		st.heap[it.seenKey] = u.define("strpos", app(SInt, "+", pos, width))
		u.logWrite(it.seenKey, SInt)
		f.set(x, &V{Typ: x.Type(), F: []*V{{Typ: tup.At(0).Type(), T: ok}, {Typ: tup.At(1).Type(), T: pos}, {Typ: tup.At(2).Type(), T: r}}})
		return
	}
	mk := u.mapKeysOf(it.m.Typ)
	seen := u.heapGet(st, it.seenKey, arrSort(mk.ks, SBool))
	dom := u.mapDom(st, mk, it.m.T)
	nz := not(eq(it.m.T, intLit(0)))
	ok := u.fresh("next_ok", SBool)
	k := u.fresh("next_k", mk.ks)
	u.assume(st, implies(ok, and(nz, sel(dom, k), not(sel(seen, k)))))
	u.assume(st, implies(not(ok), implies(nz, T{fmt.Sprintf("(forall ((k!q %s)) (! (=> (select %s k!q) (select %s k!q)) :pattern ((select %s k!q))))", mk.ks, dom.S, seen.S, dom.S), SBool})))
	st.heap[it.seenKey] = u.define("seen", ite(ok, sto(seen, k, tTrue), seen))
	u.logWrite(it.seenKey, arrSort(mk.ks, SBool))
	var kv *V
	if tup.At(1).Type() != types.Typ[types.Invalid] {
		kv = u.keyVal(tup.At(1).Type(), k)
	}
	var vv *V
	if _, isInvalid := tup.At(2).Type().(*types.Basic); isInvalid && tup.At(2).Type() == types.Typ[types.Invalid] {
		vv = &V{Typ: tup.At(2).Type(), T: intLit(0)}
	} else {
		vv = u.nameVal("next_v", u.mapValRaw(st, mk, it.m.T, k))
		u.assumeTypeInv(st, vv)
	}
	if tup.At(1).Type() == types.Typ[types.Invalid] {
		kv = &V{Typ: tup.At(1).Type(), T: intLit(0)}
	}
	f.set(x, &V{Typ: x.Type(), F: []*V{{Typ: tup.At(0).Type(), T: ok}, kv, vv}})
}

func (f *Frame) execSelect(x *ssa.Select, st *State) {
	u := f.u
	// nondeterministic choice; received values are arbitrary
	tup := x.Type().(*types.Tuple)
	n := len(x.States)
	idx := u.fresh("select_idx", SInt)
	lo := int64(0)
	if !x.Blocking {
		lo = -1
	}
	u.assume(st, and(app(SBool, "<=", intLit(lo), idx), app(SBool, "<", idx, intLit(int64(n)))))
	vs := []*V{{Typ: tup.At(0).Type(), T: idx}, {Typ: tup.At(1).Type(), T: u.fresh("recv_ok", SBool)}}
	for i := 2; i < tup.Len(); i++ {
		vs = append(vs, u.freshVal(st, tup.At(i).Type(), "recv"))
	}
	u.note("select in " + ShortName(f.fn) + " is a nondeterministic choice; received values are arbitrary")
	// `assert@send <channel>#n : ...` is evaluated for every send case of the select (callarg0 = the value that
	// would be sent), in the state in which the select is entered
	if f.top {
		for _, sst := range x.States {
			if sst.Dir == types.SendOnly && sst.Send != nil {
				if path := f.ssaPath(sst.Chan); path != "" {
					f.curCallArgs = []*V{f.val(sst.Send)}
					f.anchorsAt("send", path, st)
				}
			}
		}
	}
	f.set(x, &V{Typ: x.Type(), F: vs})
}

func describeCall(c *ssa.CallCommon) string {
	if c.IsInvoke() {
		return "invoke " + c.Method.Name()
	}
	if sc := c.StaticCallee(); sc != nil {
		return ShortName(sc)
	}
	return strings.TrimSpace(c.Value.Name())
}

// ssaPath names simple access paths in source terms: variable, variable.field,
// variable.field.field, variable.field[] (an element).
func (f *Frame) ssaPath(v ssa.Value) string {
	switch x := v.(type) {
	case *ssa.Parameter:
		return x.Name()
	case *ssa.UnOp:
		if x.Op.String() == "*" {
			if p := f.ssaPath(x.X); p != "" {
				return p
			}
		}
	case *ssa.FieldAddr:
		b := f.ssaPath(x.X)
		if b == "" {
			return ""
		}
		st := x.X.Type().Underlying().(*types.Pointer).Elem().Underlying().(*types.Struct)
		return b + "." + st.Field(x.Field).Name()
	case *ssa.IndexAddr:
		b := f.ssaPath(x.X)
		if b == "" {
			return ""
		}
		return b + "[]"
	}
	// a local variable: find a source name bound to this value
	var names []string
	for name, refs := range f.varRefs {
		for _, r := range refs {
			if r.val == v && !r.addr {
				names = append(names, name)
			}
		}
	}
	if len(names) > 0 {
		sort.Strings(names)
		return names[0]
	}
	return ""
}
