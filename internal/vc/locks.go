package vc

import (
	"fmt"
	"go/token"
	"go/types"

	"golang.org/x/tools/go/ssa"
)

// Lock discipline (C20). With Engine.LockMode the assumed contracts of sync.RWMutex record, per mutex
// object, whether the running goroutine holds it (fields writerSem / readerSem of the mutex object
// serve as the ghost state: 1 = write-held, n = number of read holds). A `guard T.f by Owner.mu`
// directive turns every computation of the address of field f of a T object into an obligation:
// the mutex mu of the Owner object in scope is held - for writing if the address is stored to (or a
// map/slice reached through it is updated), for reading otherwise.

func namedOf(t types.Type) *types.Named {
	if p, ok := t.Underlying().(*types.Pointer); ok {
		t = p.Elem()
	}
	n, _ := t.(*types.Named)
	return n
}

// isWriteAccess: the field address is stored to, or the value loaded from it is a map that is updated
// / deleted from, or it is passed on (address escapes to a callee: treated as a read).
func isWriteAccess(x *ssa.FieldAddr) bool {
	refs := x.Referrers()
	if refs == nil {
		return false
	}
	for _, r := range *refs {
		switch y := r.(type) {
		case *ssa.Store:
			if y.Addr == x {
				return true
			}
		case *ssa.UnOp:
			if y.Op != token.MUL {
				continue
			}
			if lr := y.Referrers(); lr != nil {
				for _, q := range *lr {
					switch z := q.(type) {
					case *ssa.MapUpdate:
						if z.Map == y {
							return true
						}
					case *ssa.Call:
						if b, ok := z.Call.Value.(*ssa.Builtin); ok && b.Name() == "delete" && len(z.Call.Args) > 0 && z.Call.Args[0] == y {
							return true
						}
					}
				}
			}
		case *ssa.FieldAddr:
			// a field of an embedded struct: the access kind is that of the inner address
			if isWriteAccess(y) {
				return true
			}
		case *ssa.IndexAddr:
			if ir := y.Referrers(); ir != nil {
				for _, q := range *ir {
					if st, ok := q.(*ssa.Store); ok && st.Addr == y {
						return true
					}
				}
			}
		}
	}
	return false
}

func (f *Frame) ownerInScope(ownerType string) (*V, bool) {
	for fr := f; fr != nil; fr = fr.parent {
		var cands []ssa.Value
		for _, p := range fr.fn.Params {
			cands = append(cands, p)
		}
		for _, p := range fr.fn.FreeVars {
			cands = append(cands, p)
		}
		for _, c := range cands {
			t := c.Type()
			if n := namedOf(t); n != nil && n.Obj().Name() == ownerType {
				if _, isPtr := t.Underlying().(*types.Pointer); isPtr {
					if v, ok := fr.vals[c]; ok {
						return v, true
					}
				}
			}
		}
	}
	return nil, false
}

func (f *Frame) guardCheck(x *ssa.FieldAddr, stT types.Type, field string, st *State) {
	u := f.u
	n, _ := stT.(*types.Named)
	if n == nil {
		return
	}
	for _, g := range u.eng.Specs.Guards {
		if g.Type != n.Obj().Name() || (n.Obj().Pkg() != nil && n.Obj().Pkg().Name() != g.Pkg) {
			continue
		}
		if g.Field != "*" && g.Field != field {
			continue
		}
		if g.Except[field] {
			continue
		}
		if field == g.MuField && n.Obj().Name() == g.OwnerType {
			continue // the mutex itself
		}
		owner, ok := f.ownerInScope(g.OwnerType)
		if !ok {
			u.note(fmt.Sprintf("lock discipline: no %s in scope at an access to %s.%s in %s (not checked there)", g.OwnerType, g.Type, field, ShortName(f.fn)))
			return
		}
		// the mutex object
		ot := owner.Typ.Underlying().(*types.Pointer).Elem()
		os, _ := ot.Underlying().(*types.Struct)
		var mu T
		found := false
		plain := false // sync.Mutex (no read mode) instead of sync.RWMutex
		for k := 0; os != nil && k < os.NumFields(); k++ {
			if os.Field(k).Name() != g.MuField {
				continue
			}
			found = true
			if mn := namedOf(os.Field(k).Type()); mn != nil && mn.Obj().Name() == "Mutex" {
				plain = true
			}
			if _, isPtr := os.Field(k).Type().Underlying().(*types.Pointer); isPtr {
				mu = u.loadField(st, structKey(ot), os.Field(k), owner.T).T
			} else {
				mu = u.emb(structKey(ot), g.MuField, owner.T)
			}
		}
		if !found {
			f.fail("guard: %s has no field %s", g.OwnerType, g.MuField)
		}
		w := sel(u.heapGet(st, "F:sync.RWMutex.writerSem", arrSort(SInt, SInt)), mu)
		r := sel(u.heapGet(st, "F:sync.RWMutex.readerSem", arrSort(SInt, SInt)), mu)
		if plain {
			w = sel(u.heapGet(st, "F:sync.Mutex.sema", arrSort(SInt, SInt)), mu)
			r = intLit(0)
		}
		write := isWriteAccess(x)
		var goal T
		kind := "read"
		if write {
			kind = "write"
			goal = eq(w, intLit(1))
		} else {
			goal = or(eq(w, intLit(1)), app(SBool, ">=", r, intLit(1)))
		}
		anchor := fmt.Sprintf("%s%s of %s.%s under %s.%s", f.anchor, kind, g.Type, field, g.OwnerType, g.MuField)
		u.oblige(st, "guard", anchor, goal, fmt.Sprintf("%s access to %s.%s (%s) while %s.%s is held for %s", kind, g.Type, field, u.eng.PosText(x.Pos()), g.OwnerType, g.MuField, map[bool]string{true: "writing", false: "reading or writing"}[write]))
		return
	}
}
