package vc

import (
	"os"
	"fmt"
	"go/ast"
	"go/types"
	"regexp"
	"sort"
	"strconv"
	"strings"

	"golang.org/x/tools/go/ssa"
)

// indexVars records, for every source variable name, the places where the SSA
// form binds it to a value (DebugRef instructions and phis carrying the
// variable name as comment).
func (f *Frame) indexVars() {
	f.varRefs = map[string][]varRef{}
	var info *types.Info
	if pk := pkgOf(f.fn); pk != nil {
		if pp := f.u.eng.AllPkgs[pk.Path()]; pp != nil {
			info = pp.TypesInfo
		}
	}
	for _, b := range f.fn.Blocks {
		for i, ins := range b.Instrs {
			switch x := ins.(type) {
			case *ssa.DebugRef:
				if id, ok := x.Expr.(*ast.Ident); ok {
					if info != nil {
						// only variables: the selector identifier of x.f also gets a DebugRef
						if v, ok := info.ObjectOf(id).(*types.Var); !ok || v.IsField() {
							continue
						}
					}
					f.varRefs[id.Name] = append(f.varRefs[id.Name], varRef{b, i, x.X, x.IsAddr})
				}
			case *ssa.Phi:
				if x.Comment != "" {
					f.varRefs[x.Comment] = append(f.varRefs[x.Comment], varRef{b, i, x, false})
				}
			}
		}
	}
}

func pointDominates(b1 *ssa.BasicBlock, i1 int, b2 *ssa.BasicBlock, i2 int) bool {
	if b1 == b2 {
		return i1 < i2
	}
	return b1.Dominates(b2)
}

// lookupVar finds the value of the source variable name at the point (b, idx).
func (f *Frame) lookupVar(name string, b *ssa.BasicBlock, idx int, st *State) (*V, bool) {
	var best *varRef
	refs := f.varRefs[name]
	if name == "rangeindex" && b != nil {
		// the index of the innermost range loop that contains the point (an inner loop that has already
		// finished also dominates the point, but its index is not what the clause means)
		var in *loopInfo
		for _, li := range f.loops {
			if !li.blocks[b] {
				continue
			}
			has := false
			for _, ins := range li.header.Instrs {
				if ph, ok := ins.(*ssa.Phi); ok && ph.Comment == "rangeindex" {
					has = true
				}
			}
			if has && (in == nil || len(li.blocks) < len(in.blocks)) {
				in = li
			}
		}
		if in != nil {
			for _, ins := range in.header.Instrs {
				if ph, ok := ins.(*ssa.Phi); ok && ph.Comment == "rangeindex" {
					if _, ok := f.vals[ph]; ok {
						return f.val(ph), true
					}
				}
			}
		}
	}
	for k := range refs {
		r := &refs[k]
		if !pointDominates(r.block, r.idx, b, idx) {
			continue
		}
		if _, ok := f.vals[r.val]; !ok {
			switch r.val.(type) {
			case *ssa.Const, *ssa.Global, *ssa.Function:
			default:
				continue
			}
		}
		if best == nil || pointDominates(best.block, best.idx, r.block, r.idx) {
			best = r
		}
	}
	if best != nil {
		v := f.val(best.val)
		if best.addr {
			return f.load(st, v), true
		}
		return v, true
	}
	// a local variable declared in a branch that does not dominate this point (e.g. `var p T` inside an
	// if-block, referred to at the return): its cell exists as a term once the branch was executed; the
	// clause that mentions it has to be guarded by the branch condition
	var only *varRef
	for k := range refs {
		r := &refs[k]
		if _, isAlloc := r.val.(*ssa.Alloc); !isAlloc || !r.addr {
			continue
		}
		if _, ok := f.vals[r.val]; !ok {
			continue
		}
		if only != nil && only.val != r.val {
			only = nil
			break
		}
		only = r
	}
	if only != nil {
		return f.load(st, f.val(only.val)), true
	}
	// parameters and free variables
	for _, p := range f.fn.Params {
		if p.Name() == name {
			if v, ok := f.vals[p]; ok {
				return v, true
			}
		}
	}
	for _, p := range f.fn.FreeVars {
		if p.Name() == name {
			if v, ok := f.vals[p]; ok {
				// free variables are pointers to the captured variable
				return f.load(st, v), true
			}
		}
	}
	return nil, false
}

var embWrap = regexp.MustCompile(`^\(\|?emb![^ ]+ (.*)\)$`)

// isFreshInIteration: the term denotes an object allocated after the loop head was reached in the
// exploratory pass: (+ ... (+ A 1) ... 1) with at least one increment, where A is the allocation watermark
// at the loop head (entryAlloc) or a watermark symbol introduced later (alloc!N with N > numBefore, e.g. by
// a nested loop); the address of a struct embedded in such an object counts as well.
func (u *Unit) isFreshInIteration(term string, numBefore int, entryAlloc string) bool {
	for {
		m := embWrap.FindStringSubmatch(term)
		if m == nil {
			break
		}
		term = m[1]
	}
	// named allocation references resolve to their definition
	if d, ok := u.refDefs[term]; ok {
		term = d
	}
	incs := 0
	for strings.HasPrefix(term, "(+ ") && strings.HasSuffix(term, " 1)") {
		term = strings.TrimSuffix(strings.TrimPrefix(term, "(+ "), " 1)")
		incs++
		if d, ok := u.refDefs[term]; ok {
			term = d
		}
	}
	if incs == 0 {
		return false
	}
	if term == entryAlloc {
		return true
	}
	name := strings.Trim(term, "|")
	if strings.HasPrefix(name, "alloc!") {
		if n, err := strconv.Atoi(name[len("alloc!"):]); err == nil && n > numBefore {
			return true
		}
	}
	return false
}

// backPattern: a second trigger for a frame axiom, over the heap before the havoc, so that a fact known
// about an old object carries over to the new heap without the goal having to mention the new heap
// first. A heap that is not a plain symbol (a store chain or a merge, possibly behind a defined name: an
// ite inside a pattern is rejected by z3) gets a constant equal to it to trigger on.
func (u *Unit) backPattern(st *State, old T) string {
	if !u.backpat {
		return ""
	}
	name := strings.Trim(old.S, "|")
	plain := !strings.ContainsAny(old.S, "( ") && (strings.HasPrefix(name, "Hh!") || strings.HasPrefix(name, "H0!") || strings.HasPrefix(name, "H0e"))
	if !plain {
		al := u.fresh("Hp", old.Sort)
		u.assume(st, eq(al, old))
		old = al
	}
	return fmt.Sprintf(" :pattern ((select %s r!q))", old.S)
}

// loopHeadValue: the header phi named name of the innermost loop that contains block b.
func (f *Frame) loopHeadValue(name string, b *ssa.BasicBlock, cur *State) (*V, bool) {
	var in *loopInfo
	var phi *ssa.Phi
	for _, li := range f.loops {
		if !li.blocks[b] {
			continue
		}
		for _, ins := range li.header.Instrs {
			if ph, ok := ins.(*ssa.Phi); ok && ph.Comment == name {
				if in == nil || len(li.blocks) < len(in.blocks) {
					in, phi = li, ph
				}
			}
		}
	}
	if phi != nil {
		if _, ok := f.vals[phi]; ok {
			return f.val(phi), true
		}
	}
	// an addressable local (e.g. a struct-typed parameter that is assigned to): its cell, read in the
	// state the innermost enclosing loop had at its head
	var inner *loopInfo
	for _, li := range f.loops {
		if li.blocks[b] && (inner == nil || len(li.blocks) < len(inner.blocks)) {
			inner = li
		}
	}
	if inner != nil {
		if cell, ok := f.lookupVarAddr(name); ok {
			hs := inner.headSt
			if hs == nil {
				hs = cur // exploratory first pass over the loop body: obligations are not generated there
			}
			return f.load(hs, cell), true
		}
	}
	return nil, false
}

// lookupVarAddr returns the cell of the (unique, already executed) addressable local variable name.
func (f *Frame) lookupVarAddr(name string) (*V, bool) {
	var only *varRef
	refs := f.varRefs[name]
	for k := range refs {
		r := &refs[k]
		if _, isAlloc := r.val.(*ssa.Alloc); !isAlloc || !r.addr {
			continue
		}
		if _, ok := f.vals[r.val]; !ok {
			continue
		}
		if only != nil && only.val != r.val {
			return nil, false
		}
		only = r
	}
	if only == nil {
		return nil, false
	}
	return f.val(only.val), true
}

// ---------------------------------------------------------------------------
// dependency tracking of named terms (for automatic loop frames)

var tokRe = regexp.MustCompile(`[^\s()]+`)

type termDeps struct {
	maxNum int
	keys   map[string]bool
}

func (u *Unit) depsOf(t string) termDeps {
	d := termDeps{keys: map[string]bool{}}
	for _, tok := range tokRe.FindAllString(t, -1) {
		if dd, ok := u.defDeps[tok]; ok {
			if dd.maxNum > d.maxNum {
				d.maxNum = dd.maxNum
			}
			for k := range dd.keys {
				d.keys[k] = true
			}
			continue
		}
		name := strings.Trim(tok, "|")
		if i := strings.LastIndex(name, "!"); i >= 0 {
			// heap names: H<n>!key, H0!key, Hh!key!<n>, H0e<k>!key
			if strings.HasPrefix(name, "H") {
				j := strings.Index(name, "!")
				key := name[j+1:]
				if strings.HasPrefix(name, "Hh!") || strings.HasPrefix(name, "Hc!") {
					// Hh!key!n
					if k := strings.LastIndex(key, "!"); k >= 0 {
						if n, err := strconv.Atoi(key[k+1:]); err == nil {
							if n > d.maxNum {
								d.maxNum = n
							}
							key = key[:k]
						}
					}
				} else if n, err := strconv.Atoi(name[1:j]); err == nil && n > d.maxNum {
					d.maxNum = n
				}
				d.keys[key] = true
				continue
			}
			if n, err := strconv.Atoi(name[i+1:]); err == nil && n > d.maxNum {
				d.maxNum = n
			}
		}
	}
	return d
}

// ---------------------------------------------------------------------------

func (f *Frame) loopCtx(li *loopInfo, st *State, b *ssa.BasicBlock, idx int) *SpecCtx {
	ctx := f.specCtxAt(st, b, idx)
	ctx.loop = li
	return ctx
}

func (f *Frame) enterLoop(li *loopInfo, cur *State, rc *runCtx) {
	u := f.u
	h := li.header
	nphi := 0
	for _, ins := range h.Instrs {
		if _, ok := ins.(*ssa.Phi); ok {
			nphi++
		} else {
			break
		}
	}
	// the iterator of a map-range loop
	li.iter = nil
	for _, ins := range h.Instrs {
		if nx, ok := ins.(*ssa.Next); ok {
			li.iter = f.iters[nx.Iter]
		}
	}
	// 1. invariants hold on entry
	if li.spec != nil {
		ctx := f.loopCtx(li, cur, h, nphi)
		for i, inv := range li.spec.Invariants {
			label := inv.Label
			if label == "" {
				label = fmt.Sprintf("%d", i)
			}
			u.oblige(cur, "inv-init", f.anchor+"loop "+li.key+"/"+label, ctx.evalBool(inv.E), "loop invariant holds on entry: "+inv.Src)
		}
	}
	// 2. dry run of the first iteration: which heap keys does the body write?
	var log []writeRec
	prevLog := u.writeLog
	u.writeLog = &log
	u.dry++
	nrets, ndefers := len(f.rets), len(f.defers)
	savedOrd := map[string]int{}
	for k, v := range f.callOrd {
		savedOrd[k] = v
	}
	savedAnchor := map[string]int{}
	for k, v := range f.anchorOrd {
		savedAnchor[k] = v
	}
	savedAfter := map[string]int{}
	for k, v := range f.afterOrd {
		savedAfter[k] = v
	}
	numBefore := u.nfresh
	dry := cur.clone()
	drc := &runCtx{out: map[*ssa.BasicBlock]*State{}, edge: map[[2]int]T{}}
	f.runBlocks(drc, li.blocks, h, dry)
	u.dry--
	u.writeLog = prevLog
	if prevLog != nil {
		*prevLog = append(*prevLog, log...)
	}
	f.rets = f.rets[:nrets]
	f.defers = f.defers[:ndefers]
	f.callOrd = savedOrd
	f.anchorOrd = savedAnchor
	f.afterOrd = savedAfter
	// 3. havoc
	li.pre = cur.clone()
	li.preVals = map[*ssa.Phi]*V{}
	for _, ins := range h.Instrs {
		phi, ok := ins.(*ssa.Phi)
		if !ok {
			break
		}
		li.preVals[phi] = f.vals[phi]
		nv := u.freshVal(cur, phi.Type(), "loop!"+phi.Name())
		if pv := li.preVals[phi]; pv != nil && pv.Sl != nil && pv.Sl.Off.S == "0" && nv.Sl != nil {
			// slices built by make/append/literals start at offset 0 of their array; keep that
			// (re-checked on every back edge)
			nv.Sl.Off = intLit(0)
			if li.zeroOff == nil {
				li.zeroOff = map[*ssa.Phi]bool{}
			}
			li.zeroOff[phi] = true
		}
		if lb, ok := f.monotoneLowerBound(li, phi); ok && nv.T.Sort == SInt {
			// a counter that starts at a constant and is only incremented never drops below its start
			// (re-checked on back edges)
			u.assume(cur, app(SBool, ">=", nv.T, lb))
			if li.lower == nil {
				li.lower = map[*ssa.Phi]T{}
			}
			li.lower[phi] = lb
		}
		f.vals[phi] = nv
	}
	written := map[string]Sort{}
	bases := map[string][]T{}
	variant := map[string]bool{}
	everything := false
	var exceptKeys []hk
	firstAll := true
	for _, w := range log {
		if w.key == "*" {
			everything = true
			if firstAll {
				exceptKeys = w.except
				firstAll = false
			} else {
				// keep only exceptions common to all
				var keep []hk
				for _, a := range exceptKeys {
					for _, b := range w.except {
						if a.key == b.key && a.embOf == b.embOf {
							keep = append(keep, a)
							break
						}
					}
				}
				exceptKeys = keep
			}
			continue
		}
		written[w.key] = w.sort
	}
	for _, w := range log {
		if w.key == "*" {
			continue
		}
		if w.whole {
			variant[w.key] = true
			continue
		}
		d := u.depsOf(w.base.S)
		inv := d.maxNum <= numBefore
		for k := range d.keys {
			if _, wr := written[k]; wr {
				inv = false
			}
			if everything && !isGhostKey(k) && !strings.HasPrefix(k, "IT:") {
				// the body calls something that may modify everything: a base read from the heap is not
				// the same object in every iteration
				inv = false
			}
		}
		if !inv {
			// a write to an object that the iteration itself allocated (possibly to a struct embedded in it)
			// cannot touch anything that existed before the loop: such writes need no entry in the frame
			if u.isFreshInIteration(w.base.S, numBefore, li.pre.alloc.S) {
				if _, seen := bases[w.key]; !seen {
					bases[w.key] = nil
				}
				continue
			}
			variant[w.key] = true
			continue
		}
		dup := false
		for _, b := range bases[w.key] {
			if b.S == w.base.S {
				dup = true
			}
		}
		if !dup {
			bases[w.key] = append(bases[w.key], w.base)
		}
	}
	var keys []string
	for k := range written {
		keys = append(keys, k)
	}
	sort.Strings(keys)
	// allocation watermark may grow
	if len(keys) > 0 || true {
		na := u.fresh("alloc", SInt)
		u.assume(cur, app(SBool, ">=", na, li.pre.alloc))
		cur.alloc = na
	}
	li.havocked = keys
	li.frameB = map[string][]T{}
	if everything {
		// the body calls something that may modify everything: forget the heap
		its := map[string]bool{}
		for _, k := range keys {
			if strings.HasPrefix(k, "IT:") {
				its[k] = true
			}
		}
		olds := map[string]T{}
		for _, k := range exceptKeys {
			if _, direct := written[k.key]; direct {
				continue // also written directly in the loop: no frame
			}
			olds[k.key] = u.heapGet(li.pre, k.key, k.sort)
		}
		u.havocAll(cur)
		for k := range its {
			u.heapHavoc(cur, k, written[k])
		}
		done := map[string]T{}
		for _, k := range exceptKeys {
			old, ok := olds[k.key]
			if !ok {
				continue
			}
			if u.eng.LockMode && (strings.HasPrefix(k.key, "F:sync.RWMutex.") || k.key == "F:sync.Mutex.sema") {
				continue // kept as a whole by havocAll
			}
			nh, ok := done[k.key]
			if !ok {
				nh = u.heapHavoc(cur, k.key, k.sort)
				done[k.key] = nh
			}
			u.assume(cur, T{fmt.Sprintf("(forall ((r!q Int)) (! (=> (and (<= (root r!q) %s) %s) (= (select %s r!q) (select %s r!q))) :pattern ((select %s r!q))))", li.pre.alloc.S, u.kindCond(k), nh.S, old.S, nh.S), SBool})
		}
		// ghost fields are not part of "everything": the ones the body changes are framed like any other key
		var gk []string
		for _, k := range keys {
			if isGhostKey(k) {
				gk = append(gk, k)
			}
		}
		keys = gk
		li.havocked = gk
	}
	for _, k := range keys {
		srt := written[k]
		old := u.heapGet(li.pre, k, srt)
		nh := u.heapHavoc(cur, k, srt)
		if strings.HasPrefix(k, "IT:") || strings.HasPrefix(k, "G:") {
			continue
		}
		// frame: objects that existed before the loop and are not among the
		// (loop-invariant) written bases keep their contents
		var excl []string
		if !variant[k] {
			for _, b := range bases[k] {
				excl = append(excl, fmt.Sprintf("(not (= r!q %s))", b.S))
			}
			li.frameB[k] = bases[k]
		} else {
			if os.Getenv("GOVC_DEBUG_FRAMES") != "" {
				fmt.Fprintf(os.Stderr, "NOFRAME %s loop %s key %s\n", u.name, li.key, k)
			}
			// bases vary with the iteration: only the allocation frame can be kept
			// when every write goes to an object allocated inside the loop — not
			// known syntactically, so no frame is assumed.
			continue
		}
		cond := fmt.Sprintf("(<= (root r!q) %s)", li.pre.alloc.S)
		if len(excl) > 0 {
			cond = "(and " + cond + " " + strings.Join(excl, " ") + ")"
		}
		u.assume(cur, T{fmt.Sprintf("(forall ((r!q Int)) (! (=> %s (= (select %s r!q) (select %s r!q))) :pattern ((select %s r!q))%s))", cond, nh.S, old.S, nh.S, u.backPattern(cur, old)), SBool})
	}
	// the iterator's visited set only grows within the map's (current) domain — left to invariants
	// 4. assume the invariants for an arbitrary iteration
	cur.reach = u.define("reach", cur.reach)
	if li.spec != nil {
		ctx := f.loopCtx(li, cur, h, nphi)
		for _, inv := range li.spec.Invariants {
			u.assume(cur, ctx.evalBool(inv.E))
		}
	}
	li.headSt = cur.clone()
}

// backEdge checks that the invariants (and the automatic frame) are preserved.
func (f *Frame) backEdge(li *loopInfo, from *ssa.BasicBlock, st *State, cond T) {
	u := f.u
	h := li.header
	end := st.clone()
	end.reach = cond
	// values of the header phis along this edge
	idx := -1
	for i, p := range h.Preds {
		if p == from {
			idx = i
		}
	}
	saved := map[*ssa.Phi]*V{}
	nphi := 0
	for _, ins := range h.Instrs {
		phi, ok := ins.(*ssa.Phi)
		if !ok {
			break
		}
		nphi++
		saved[phi] = f.vals[phi]
	}
	// evaluate edge values first (they may refer to other phis of the same header)
	edgeVals := map[*ssa.Phi]*V{}
	for phi := range saved {
		edgeVals[phi] = f.val(phi.Edges[idx])
	}
	for phi, v := range edgeVals {
		f.vals[phi] = v
	}
	if li.spec != nil {
		ctx := f.loopCtx(li, end, h, nphi)
		for i, inv := range li.spec.Invariants {
			label := inv.Label
			if label == "" {
				label = fmt.Sprintf("%d", i)
			}
			u.oblige(end, "inv-step", f.anchor+"loop "+li.key+"/"+label, ctx.evalBool(inv.E), "loop invariant is preserved: "+inv.Src)
		}
	}
	for phi, lb := range li.lower {
		if ev := edgeVals[phi]; ev != nil {
			u.oblige(end, "loopframe", f.anchor+"loop "+li.key+"/counter "+phi.Comment+" >= start", app(SBool, ">=", ev.T, lb), "loop counter never drops below its initial value")
		}
	}
	for phi := range li.zeroOff {
		if ev := edgeVals[phi]; ev != nil && ev.Sl != nil {
			u.oblige(end, "loopframe", f.anchor+"loop "+li.key+"/slice "+phi.Comment+" starts at offset 0", eq(ev.Sl.Off, intLit(0)), "slice variable keeps offset 0 across iterations")
		}
	}
	// automatic frame
	for _, k := range li.havocked {
		bs, ok := li.frameB[k]
		if !ok {
			continue
		}
		srt := u.heapSort[k]
		old := u.heapGet(li.pre, k, srt)
		now := u.heapGet(end, k, srt)
		var excl []string
		for _, b := range bs {
			excl = append(excl, fmt.Sprintf("(not (= r!q %s))", b.S))
		}
		cnd := fmt.Sprintf("(<= (root r!q) %s)", li.pre.alloc.S)
		if len(excl) > 0 {
			cnd = "(and " + cnd + " " + strings.Join(excl, " ") + ")"
		}
		goal := T{fmt.Sprintf("(forall ((r!q Int)) (=> %s (= (select %s r!q) (select %s r!q))))", cnd, now.S, old.S), SBool}
		u.oblige(end, "loopframe", f.anchor+"loop "+li.key+"/"+k, goal, "loop body writes "+k+" only at the objects written in its first iteration")
	}
	for phi, v := range saved {
		f.vals[phi] = v
	}
}

// monotoneLowerBound recognises phi = [const c on entry, phi + k (k >= 0) on every back edge].
func (f *Frame) monotoneLowerBound(li *loopInfo, phi *ssa.Phi) (T, bool) {
	if !isInteger(phi.Type()) {
		return T{}, false
	}
	var lb *ssa.Const
	for i, p := range li.header.Preds {
		e := phi.Edges[i]
		if isBackEdge(p, li.header) {
			bo, ok := e.(*ssa.BinOp)
			if !ok || bo.Op.String() != "+" || bo.X != phi {
				return T{}, false
			}
			c, ok := bo.Y.(*ssa.Const)
			if !ok || c.Value == nil || c.Int64() < 0 {
				return T{}, false
			}
		} else {
			c, ok := e.(*ssa.Const)
			if !ok || c.Value == nil {
				return T{}, false
			}
			if lb != nil && lb.Int64() != c.Int64() {
				return T{}, false
			}
			lb = c
		}
	}
	if lb == nil {
		return T{}, false
	}
	return intLit(lb.Int64()), true
}
