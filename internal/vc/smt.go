package vc

import (
	"bufio"
	"bytes"
	"context"
	"fmt"
	"os/exec"
	"strings"
	"time"
)

// Sort is an SMT-LIB sort, written out.
type Sort = string

const (
	SInt  Sort = "Int"
	SBool Sort = "Bool"
	SStr  Sort = "Str"
	SReal Sort = "Real"
)

func arrSort(idx, elem Sort) Sort { return "(Array " + idx + " " + elem + ")" }

// T is an SMT term with its sort.
type T struct {
	S    string
	Sort Sort
}

func (t T) String() string { return t.S }

var (
	tTrue  = T{"true", SBool}
	tFalse = T{"false", SBool}
)

func intLit(n int64) T {
	if n < 0 {
		return T{fmt.Sprintf("(- %d)", -n), SInt}
	}
	return T{fmt.Sprintf("%d", n), SInt}
}

func bigLit(s string) T {
	if strings.HasPrefix(s, "-") {
		return T{"(- " + s[1:] + ")", SInt}
	}
	return T{s, SInt}
}

func app(sort Sort, f string, args ...T) T {
	// trivial arithmetic identities keep terms syntactically simple (offset 0, length 1)
	if len(args) == 2 && sort == SInt {
		switch f {
		case "+":
			if args[0].S == "0" {
				return args[1]
			}
			if args[1].S == "0" {
				return args[0]
			}
		case "-":
			if args[1].S == "0" {
				return args[0]
			}
		}
	}
	var b strings.Builder
	b.WriteString("(")
	b.WriteString(f)
	for _, a := range args {
		b.WriteString(" ")
		b.WriteString(a.S)
	}
	b.WriteString(")")
	return T{b.String(), sort}
}

func and(ts ...T) T {
	var xs []T
	for _, t := range ts {
		if t.S == "true" {
			continue
		}
		if t.S == "false" {
			return tFalse
		}
		xs = append(xs, t)
	}
	switch len(xs) {
	case 0:
		return tTrue
	case 1:
		return xs[0]
	}
	return app(SBool, "and", xs...)
}

func or(ts ...T) T {
	var xs []T
	for _, t := range ts {
		if t.S == "false" {
			continue
		}
		if t.S == "true" {
			return tTrue
		}
		xs = append(xs, t)
	}
	switch len(xs) {
	case 0:
		return tFalse
	case 1:
		return xs[0]
	}
	return app(SBool, "or", xs...)
}

func not(t T) T {
	switch t.S {
	case "true":
		return tFalse
	case "false":
		return tTrue
	}
	if strings.HasPrefix(t.S, "(not ") {
		return T{t.S[5 : len(t.S)-1], SBool}
	}
	return app(SBool, "not", t)
}

func implies(a, b T) T {
	if a.S == "true" {
		return b
	}
	if a.S == "false" || b.S == "true" {
		return tTrue
	}
	return app(SBool, "=>", a, b)
}

func eq(a, b T) T {
	if a.S == b.S {
		return tTrue
	}
	return app(SBool, "=", a, b)
}

func ite(c, a, b T) T {
	if c.S == "true" {
		return a
	}
	if c.S == "false" {
		return b
	}
	if a.S == b.S {
		return a
	}
	return app(a.Sort, "ite", c, a, b)
}

func sel(a, i T) T {
	// a has sort (Array I E)
	return app(arrElemSort(a.Sort), "select", a, i)
}

func sto(a, i, v T) T { return app(a.Sort, "store", a, i, v) }

// arrElemSort returns E from "(Array I E)".
func arrElemSort(s Sort) Sort {
	_, e := splitArr(s)
	return e
}

func arrIdxSort(s Sort) Sort {
	i, _ := splitArr(s)
	return i
}

func splitArr(s Sort) (Sort, Sort) {
	if !strings.HasPrefix(s, "(Array ") {
		panic("not an array sort: " + s)
	}
	body := s[len("(Array ") : len(s)-1]
	// first sort is either atom or parenthesised
	depth := 0
	for i := 0; i < len(body); i++ {
		switch body[i] {
		case '(':
			depth++
		case ')':
			depth--
		case ' ':
			if depth == 0 {
				return body[:i], body[i+1:]
			}
		}
	}
	panic("bad array sort: " + s)
}

// quoteSym makes an SMT-LIB symbol out of an arbitrary name.
func quoteSym(name string) string {
	simple := true
	for _, r := range name {
		if !(r >= 'a' && r <= 'z' || r >= 'A' && r <= 'Z' || r >= '0' && r <= '9' || r == '_' || r == '.' || r == '$' || r == '!' || r == '-') {
			simple = false
			break
		}
	}
	if simple && len(name) > 0 && !(name[0] >= '0' && name[0] <= '9') {
		return name
	}
	name = strings.ReplaceAll(name, "|", "_")
	name = strings.ReplaceAll(name, "\\", "_")
	return "|" + name + "|"
}

// ---------------------------------------------------------------------------
// Solvers

type SolverSpec struct {
	Name string
	Argv []string
	// Prefix is emitted before the script (options that must come first).
	Prefix string
}

func Solvers(timeoutMs int, seed int) []SolverSpec {
	return []SolverSpec{
		{Name: "z3-new-5.1.0", Argv: []string{"z3-new", "-in", fmt.Sprintf("-t:%d", timeoutMs)},
			Prefix: fmt.Sprintf("(set-option :smt.random_seed %d)\n", seed)},
		{Name: "z3-4.8.12", Argv: []string{"z3", "-in", fmt.Sprintf("-t:%d", timeoutMs)},
			Prefix: fmt.Sprintf("(set-option :smt.random_seed %d)\n", seed)},
		{Name: "cvc5-1.0.3", Argv: []string{"cvc5", "--lang", "smt2", "--incremental", fmt.Sprintf("--tlimit-per=%d", timeoutMs), fmt.Sprintf("--seed=%d", seed)},
			Prefix: "(set-option :produce-models true)\n(set-logic ALL)\n"},
	}
}

// RunScript feeds script to a solver and returns the output lines that are
// answers to check-sat ("sat", "unsat", "unknown", "timeout") in order, plus
// the raw output.
func RunScript(ctx context.Context, s SolverSpec, script string, hardTimeout time.Duration) ([]string, string, time.Duration, error) {
	ctx, cancel := context.WithTimeout(ctx, hardTimeout)
	defer cancel()
	cmd := exec.CommandContext(ctx, s.Argv[0], s.Argv[1:]...)
	cmd.Stdin = strings.NewReader(s.Prefix + script)
	var out bytes.Buffer
	cmd.Stdout = &out
	cmd.Stderr = &out
	start := time.Now()
	err := cmd.Run()
	el := time.Since(start)
	var answers []string
	sc := bufio.NewScanner(bytes.NewReader(out.Bytes()))
	sc.Buffer(make([]byte, 1<<20), 1<<26)
	for sc.Scan() {
		l := strings.TrimSpace(sc.Text())
		switch l {
		case "sat", "unsat", "unknown", "timeout":
			answers = append(answers, l)
		}
	}
	if ctx.Err() != nil {
		return answers, out.String(), el, fmt.Errorf("hard timeout")
	}
	// z3 4.8.12 exits 1 on errors such as get-model after unsat; only the
	// answers matter.
	_ = err
	return answers, out.String(), el, nil
}
