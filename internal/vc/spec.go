package vc

import (
	"fmt"
	"strings"
	"unicode"
)

// ---------------------------------------------------------------------------
// Spec expression AST

type Expr interface{}

type (
	EIdent struct{ Name string }
	EInt   struct{ V string }
	EStr   struct{ V string }
	EBool  struct{ V bool }
	ENil   struct{}
	EUn    struct {
		Op string
		X  Expr
	}
	EBin struct {
		Op   string
		X, Y Expr
	}
	ESel struct {
		X Expr
		F string
	}
	EIdx   struct{ X, I Expr }
	ESlice struct{ X, Lo, Hi Expr }
	ECall  struct {
		Fn   Expr
		Args []Expr
	}
	EQuant struct {
		Forall   bool
		Vars     []Binder
		Body     Expr
		Triggers []Expr // optional explicit trigger (one multi-pattern)
	}
	EOld struct{ X Expr }
)

type Binder struct {
	Name string
	Type string // textual type, resolved at evaluation time
}

// ---------------------------------------------------------------------------
// Lexer

type tok struct {
	k string // "id", "int", "str", "chr", "op", "eof"
	v string
}

func lexSpec(s string) ([]tok, error) {
	var ts []tok
	i := 0
	for i < len(s) {
		c := s[i]
		switch {
		case c == ' ' || c == '\t' || c == '\n' || c == '\r':
			i++
		case unicode.IsLetter(rune(c)) || c == '_':
			j := i
			for j < len(s) && (unicode.IsLetter(rune(s[j])) || unicode.IsDigit(rune(s[j])) || s[j] == '_') {
				j++
			}
			ts = append(ts, tok{"id", s[i:j]})
			i = j
		case c >= '0' && c <= '9':
			j := i
			for j < len(s) && (s[j] >= '0' && s[j] <= '9' || s[j] == '_' || s[j] == 'x' || s[j] >= 'a' && s[j] <= 'f' || s[j] >= 'A' && s[j] <= 'F') {
				j++
			}
			ts = append(ts, tok{"int", strings.ReplaceAll(s[i:j], "_", "")})
			i = j
		case c == '"':
			j := i + 1
			var b strings.Builder
			for j < len(s) && s[j] != '"' {
				if s[j] == '\\' && j+1 < len(s) {
					j++
					switch s[j] {
					case 'n':
						b.WriteByte('\n')
					case 'r':
						b.WriteByte('\r')
					case 't':
						b.WriteByte('\t')
					case '0':
						b.WriteByte(0)
					default:
						b.WriteByte(s[j])
					}
					j++
					continue
				}
				b.WriteByte(s[j])
				j++
			}
			if j >= len(s) {
				return nil, fmt.Errorf("unterminated string in %q", s)
			}
			ts = append(ts, tok{"str", b.String()})
			i = j + 1
		case c == '\'':
			// char literal
			j := i + 1
			var ch byte
			if j < len(s) && s[j] == '\\' {
				j++
				switch s[j] {
				case 'n':
					ch = '\n'
				case 'r':
					ch = '\r'
				case 't':
					ch = '\t'
				case '0':
					ch = 0
				default:
					ch = s[j]
				}
			} else if j < len(s) {
				ch = s[j]
			}
			j++
			if j >= len(s) || s[j] != '\'' {
				return nil, fmt.Errorf("bad char literal in %q", s)
			}
			ts = append(ts, tok{"int", fmt.Sprintf("%d", ch)})
			i = j + 1
		default:
			ops := []string{"<==>", "==>", "::", "==", "!=", "<=", ">=", "&&", "||", "[]", "<", ">", "+", "-", "*", "/", "%", "!", "(", ")", "[", "]", ".", ",", ":", "{", "}"}
			matched := false
			for _, op := range ops {
				if strings.HasPrefix(s[i:], op) {
					if op == "[]" {
						// only a token when followed by a type-ish start; treat as two tokens otherwise
						ts = append(ts, tok{"op", "["}, tok{"op", "]"})
					} else {
						ts = append(ts, tok{"op", op})
					}
					i += len(op)
					matched = true
					break
				}
			}
			if !matched {
				return nil, fmt.Errorf("unexpected character %q in %q", c, s)
			}
		}
	}
	ts = append(ts, tok{"eof", ""})
	return ts, nil
}

// ---------------------------------------------------------------------------
// Parser

type sparser struct {
	ts  []tok
	p   int
	src string
}

func ParseExpr(src string) (e Expr, err error) {
	ts, err := lexSpec(src)
	if err != nil {
		return nil, err
	}
	p := &sparser{ts: ts, src: src}
	defer func() {
		if r := recover(); r != nil {
			if pe, ok := r.(parseErr); ok {
				err = fmt.Errorf("%s in %q", string(pe), src)
				return
			}
			panic(r)
		}
	}()
	e = p.expr()
	if p.peek().k != "eof" {
		p.fail("trailing input at %q", p.peek().v)
	}
	return e, nil
}

type parseErr string

func (p *sparser) fail(f string, a ...interface{}) { panic(parseErr(fmt.Sprintf(f, a...))) }
func (p *sparser) peek() tok                         { return p.ts[p.p] }
func (p *sparser) next() tok                         { t := p.ts[p.p]; p.p++; return t }
func (p *sparser) isOp(v string) bool                { t := p.peek(); return t.k == "op" && t.v == v }
func (p *sparser) isID(v string) bool                { t := p.peek(); return t.k == "id" && t.v == v }
func (p *sparser) accept(v string) bool {
	if p.isOp(v) {
		p.p++
		return true
	}
	return false
}
func (p *sparser) expect(v string) {
	if !p.accept(v) {
		p.fail("expected %q, got %q", v, p.peek().v)
	}
}

func (p *sparser) expr() Expr { return p.iff() }

func (p *sparser) iff() Expr {
	x := p.impl()
	for p.accept("<==>") {
		y := p.impl()
		x = &EBin{"<==>", x, y}
	}
	return x
}

func (p *sparser) impl() Expr {
	x := p.or()
	if p.accept("==>") {
		y := p.impl()
		return &EBin{"==>", x, y}
	}
	return x
}

func (p *sparser) or() Expr {
	x := p.and()
	for p.accept("||") {
		x = &EBin{"||", x, p.and()}
	}
	return x
}

func (p *sparser) and() Expr {
	x := p.cmp()
	for p.accept("&&") {
		x = &EBin{"&&", x, p.cmp()}
	}
	return x
}

func (p *sparser) cmpOp() string {
	t := p.peek()
	if t.k == "op" {
		switch t.v {
		case "==", "!=", "<", "<=", ">", ">=":
			p.p++
			return t.v
		}
	}
	if t.k == "id" && t.v == "in" {
		p.p++
		return "in"
	}
	if t.k == "op" && t.v == "!" && p.ts[p.p+1].k == "id" && p.ts[p.p+1].v == "in" {
		p.p += 2
		return "!in"
	}
	return ""
}

func (p *sparser) cmp() Expr {
	x := p.add()
	var res Expr
	for {
		op := p.cmpOp()
		if op == "" {
			break
		}
		y := p.add()
		var c Expr = &EBin{op, x, y}
		if res == nil {
			res = c
		} else {
			res = &EBin{"&&", res, c}
		}
		x = y
	}
	if res == nil {
		return x
	}
	return res
}

func (p *sparser) add() Expr {
	x := p.mul()
	for {
		if p.accept("+") {
			x = &EBin{"+", x, p.mul()}
		} else if p.accept("-") {
			x = &EBin{"-", x, p.mul()}
		} else {
			return x
		}
	}
}

func (p *sparser) mul() Expr {
	x := p.unary()
	for {
		if p.accept("*") {
			x = &EBin{"*", x, p.unary()}
		} else if p.accept("/") {
			x = &EBin{"/", x, p.unary()}
		} else if p.accept("%") {
			x = &EBin{"%", x, p.unary()}
		} else {
			return x
		}
	}
}

func (p *sparser) unary() Expr {
	if p.accept("!") {
		return &EUn{"!", p.unary()}
	}
	if p.accept("-") {
		return &EUn{"-", p.unary()}
	}
	if p.accept("*") {
		return &EUn{"*", p.unary()}
	}
	return p.postfix()
}

func (p *sparser) postfix() Expr {
	x := p.primary()
	for {
		switch {
		case p.accept("."):
			t := p.next()
			if t.k != "id" {
				p.fail("expected field name after '.'")
			}
			x = &ESel{x, t.v}
		case p.accept("["):
			if p.accept(":") {
				var hi Expr
				if !p.isOp("]") {
					hi = p.expr()
				}
				p.expect("]")
				x = &ESlice{x, nil, hi}
				continue
			}
			i := p.expr()
			if p.accept(":") {
				var hi Expr
				if !p.isOp("]") {
					hi = p.expr()
				}
				p.expect("]")
				x = &ESlice{x, i, hi}
				continue
			}
			p.expect("]")
			x = &EIdx{x, i}
		case p.accept("("):
			var args []Expr
			for !p.isOp(")") {
				args = append(args, p.expr())
				if !p.accept(",") {
					break
				}
			}
			p.expect(")")
			x = &ECall{x, args}
		default:
			return x
		}
	}
}

func (p *sparser) typeText() string {
	// type := '*' type | '[' ']' type | ident ('.' ident)?
	if p.accept("*") {
		return "*" + p.typeText()
	}
	if p.accept("[") {
		if p.peek().k == "int" {
			n := p.next().v
			p.expect("]")
			return "[" + n + "]" + p.typeText()
		}
		p.expect("]")
		return "[]" + p.typeText()
	}
	t := p.next()
	if t.k != "id" {
		p.fail("expected type, got %q", t.v)
	}
	name := t.v
	if name == "map" {
		p.expect("[")
		k := p.typeText()
		p.expect("]")
		return "map[" + k + "]" + p.typeText()
	}
	if p.isOp(".") && p.ts[p.p+1].k == "id" {
		p.p++
		name += "." + p.next().v
	}
	return name
}

func (p *sparser) primary() Expr {
	t := p.next()
	switch t.k {
	case "int":
		return &EInt{t.v}
	case "str":
		return &EStr{t.v}
	case "id":
		switch t.v {
		case "true":
			return &EBool{true}
		case "false":
			return &EBool{false}
		case "nil":
			return &ENil{}
		case "old":
			p.expect("(")
			e := p.expr()
			p.expect(")")
			return &EOld{e}
		case "forall", "exists":
			var bs []Binder
			for {
				n := p.next()
				if n.k != "id" {
					p.fail("expected bound variable name")
				}
				names := []string{n.v}
				for p.accept(",") {
					// either another name sharing the type, or a new binder
					n2 := p.next()
					if n2.k != "id" {
						p.fail("expected bound variable name")
					}
					names = append(names, n2.v)
				}
				ty := p.typeText()
				for _, nm := range names {
					bs = append(bs, Binder{nm, ty})
				}
				if p.isOp("{") || p.accept("::") {
					break
				}
				p.expect(",")
			}
			var trig []Expr
			if p.accept("{") {
				for {
					trig = append(trig, p.expr())
					if !p.accept(",") {
						break
					}
				}
				p.expect("}")
				p.expect("::")
			}
			body := p.expr()
			return &EQuant{Forall: t.v == "forall", Vars: bs, Body: body, Triggers: trig}
		}
		return &EIdent{t.v}
	case "op":
		if t.v == "(" {
			e := p.expr()
			p.expect(")")
			return e
		}
	}
	p.fail("unexpected token %q", t.v)
	return nil
}

// ---------------------------------------------------------------------------
// Contract files

type Clause struct {
	Label string
	E     Expr
	Src   string
}

type LoopSpec struct {
	Key        string
	Invariants []Clause
	Modifies   []string
	NoDefault  bool
}

type AnchorAssert struct {
	Anchor string // e.g. "call applyMessageWait#0"
	Clause
	Assume bool // an assumption (listed in evidence), not an obligation
}

type Contract struct {
	Func      string
	Arith     string
	Pure      bool
	Trusted   bool // contract is assumed (dependency or out-of-subset body); never verified
	Requires  []Clause
	Ensures   []Clause
	Modifies  []string
	HasMod    bool
	Loops     map[string]*LoopSpec
	LoopOrder []string
	Asserts   []AnchorAssert
	Lets      []struct {
		Name string
		E    Expr
		Src  string
	}
	Opts   map[string]string
	Origin string // file the contract came from
	NoPanicOff bool
	Terminates bool // body never returns normally (log.Fatal etc.)
	LoopInv    []Clause // default invariants for every loop (templates)
}

type Pred struct {
	Pkg    string
	Name   string
	Params []Binder
	Body   Expr
	Src    string
}

type GhostFunc struct {
	Name   string
	Params []Binder
	Result string
}

// GhostField: specification-only state attached to the objects of a named type (struct, or interface such
// as iterator.Iterator). It lives in a heap array of its own ("GF:<type>.<name>"), is read as x.name in
// specs, is never touched by code, and changes only through a contract that lists it in its modifies
// clause ("modifies *" does not include ghost fields).
type GhostField struct {
	Pkg, Type, Name, TypeText string
}

type GlobalInv struct {
	Pkg string // package name
	Clause
	Origin string
}

// Guard: accesses to Type.Field (Field "*" = every field) need the lock OwnerType.MuField of the owner
// object in scope (C20, only with Engine.LockMode).
type Guard struct {
	Pkg, Type, Field, OwnerType, MuField string
	Except                              map[string]bool // with Field "*": fields that need no lock (immutable once the object is shared)
}

type SpecSet struct {
	Guards     []Guard
	GhostFields []GhostField
	GlobalInvs []GlobalInv
	Contracts map[string]*Contract
	Preds     map[string]*Pred
	Ghosts    map[string]*GhostFunc
	Axioms    []Clause
	AxiomPkg  []string
	Files     []string
}

func NewSpecSet() *SpecSet {
	return &SpecSet{Contracts: map[string]*Contract{}, Preds: map[string]*Pred{}, Ghosts: map[string]*GhostFunc{}}
}

var directiveWords = map[string]bool{
	"func": true, "requires": true, "ensures": true, "invariant": true, "loop": true,
	"modifies": true, "pred": true, "axiom": true, "ghost": true, "assert": true, "assume": true,
	"guard": true, "ghostfield": true, "let": true, "arith": true, "globalinv": true, "loopinv": true, "nodefault": true, "pure": true, "opt": true, "trusted": true, "terminates": true,
}

// ParseSpecText parses the concatenated "//@" lines of one file. pkgPrefix is
// prepended to unqualified func names ("" for deps.spec, which uses full names).
func (ss *SpecSet) ParseSpecText(origin, pkgPrefix string, lines []string) error {
	// join continuation lines
	var dirs []string
	for _, l := range lines {
		l = strings.TrimSpace(l)
		if l == "" || strings.HasPrefix(l, "#") {
			continue
		}
		w := l
		if i := strings.IndexAny(l, " \t@"); i >= 0 {
			w = l[:i]
		}
		if directiveWords[w] || len(dirs) == 0 {
			dirs = append(dirs, l)
		} else {
			dirs[len(dirs)-1] += " " + l
		}
	}
	var cur *Contract
	var curLoop *LoopSpec
	parseClause := func(rest string) (Clause, error) {
		label := ""
		// optional label "name:" where name is an identifier-with-dashes not followed by ':'
		if i := strings.Index(rest, ":"); i > 0 && !strings.HasPrefix(rest[i:], "::") {
			cand := strings.TrimSpace(rest[:i])
			ok := cand != ""
			for _, r := range cand {
				if !(unicode.IsLetter(r) || unicode.IsDigit(r) || r == '-' || r == '_' || r == '.') {
					ok = false
				}
			}
			if ok {
				label = cand
				rest = strings.TrimSpace(rest[i+1:])
			}
		}
		e, err := ParseExpr(rest)
		if err != nil {
			return Clause{}, err
		}
		return Clause{Label: label, E: e, Src: rest}, nil
	}
	for _, d := range dirs {
		w := d
		rest := ""
		if i := strings.IndexAny(d, " \t"); i >= 0 {
			w, rest = d[:i], strings.TrimSpace(d[i+1:])
		}
		if strings.HasPrefix(w, "assert@") || strings.HasPrefix(w, "assume@") {
			// assert@<anchor words> : expr      (anchor may contain spaces → split at first " : ")
			full := d[len("assert@"):]
			assume := strings.HasPrefix(w, "assume@")
			i := strings.Index(full, " : ")
			if i < 0 {
				return fmt.Errorf("%s: assert@ needs ' : ' separator: %q", origin, d)
			}
			anchor := strings.TrimSpace(full[:i])
			cl, err := parseClause(strings.TrimSpace(full[i+3:]))
			if err != nil {
				return fmt.Errorf("%s: %v", origin, err)
			}
			if cur == nil {
				return fmt.Errorf("%s: assert@ outside func", origin)
			}
			cur.Asserts = append(cur.Asserts, AnchorAssert{Anchor: anchor, Clause: cl, Assume: assume})
			continue
		}
		switch w {
		case "func":
			name := rest
			if pkgPrefix != "" && !strings.Contains(name, "/") && !strings.HasPrefix(name, pkgPrefix+".") {
				name = pkgPrefix + "." + name
			}
			if old, dup := ss.Contracts[name]; dup {
				// a further block for the same function (contracts are grouped by property): clauses accumulate
				cur = old
				curLoop = nil
				continue
			}
			cur = &Contract{Func: name, Loops: map[string]*LoopSpec{}, Opts: map[string]string{}, Origin: origin}
			ss.Contracts[name] = cur
			curLoop = nil
		case "arith":
			if cur == nil {
				return fmt.Errorf("%s: arith outside func", origin)
			}
			cur.Arith = rest
		case "pure":
			cur.Pure = true
		case "trusted":
			cur.Trusted = true
		case "terminates":
			cur.Terminates = true
		case "opt":
			kv := strings.SplitN(rest, "=", 2)
			if len(kv) == 2 {
				cur.Opts[strings.TrimSpace(kv[0])] = strings.TrimSpace(kv[1])
			} else {
				cur.Opts[rest] = "true"
			}
		case "requires", "ensures":
			if cur == nil {
				return fmt.Errorf("%s: %s outside func", origin, w)
			}
			cl, err := parseClause(rest)
			if err != nil {
				return fmt.Errorf("%s: %s: %v", origin, cur.Func, err)
			}
			if w == "requires" {
				cur.Requires = append(cur.Requires, cl)
			} else {
				cur.Ensures = append(cur.Ensures, cl)
			}
		case "modifies":
			if cur == nil {
				return fmt.Errorf("%s: modifies outside func", origin)
			}
			var ms []string
			for _, m := range splitTopLevel(rest) {
				m = strings.TrimSpace(m)
				if m != "" && m != "nothing" {
					ms = append(ms, m)
				}
			}
			if curLoop != nil {
				curLoop.Modifies = append(curLoop.Modifies, ms...)
			} else {
				cur.HasMod = true
				cur.Modifies = append(cur.Modifies, ms...)
			}
		case "loop":
			if cur == nil {
				return fmt.Errorf("%s: loop outside func", origin)
			}
			key := strings.TrimSuffix(rest, ":")
			if ex, ok := cur.Loops[key]; ok {
				curLoop = ex
			} else {
				curLoop = &LoopSpec{Key: key}
				cur.Loops[key] = curLoop
				cur.LoopOrder = append(cur.LoopOrder, key)
			}
		case "loopinv":
			if cur == nil {
				return fmt.Errorf("%s: loopinv outside func", origin)
			}
			cl, err := parseClause(rest)
			if err != nil {
				return fmt.Errorf("%s: %s: %v", origin, cur.Func, err)
			}
			cur.LoopInv = append(cur.LoopInv, cl)
		case "nodefault":
			if curLoop == nil {
				return fmt.Errorf("%s: nodefault outside loop", origin)
			}
			curLoop.NoDefault = true
		case "invariant":
			if curLoop == nil {
				return fmt.Errorf("%s: invariant outside loop", origin)
			}
			cl, err := parseClause(rest)
			if err != nil {
				return fmt.Errorf("%s: %s: %v", origin, cur.Func, err)
			}
			curLoop.Invariants = append(curLoop.Invariants, cl)
		case "let":
			i := strings.Index(rest, "=")
			if i < 0 || cur == nil {
				return fmt.Errorf("%s: bad let %q", origin, d)
			}
			e, err := ParseExpr(strings.TrimSpace(rest[i+1:]))
			if err != nil {
				return fmt.Errorf("%s: %v", origin, err)
			}
			cur.Lets = append(cur.Lets, struct {
				Name string
				E    Expr
				Src  string
			}{strings.TrimSpace(rest[:i]), e, rest})
		case "pred":
			// pred name(a T, b U) = expr
			i := strings.Index(rest, "=")
			for i >= 0 && (strings.HasPrefix(rest[i:], "==") || (i > 0 && (rest[i-1] == '=' || rest[i-1] == '!' || rest[i-1] == '<' || rest[i-1] == '>'))) {
				j := strings.Index(rest[i+1:], "=")
				if j < 0 {
					i = -1
					break
				}
				i = i + 1 + j
			}
			if i < 0 {
				return fmt.Errorf("%s: bad pred %q", origin, d)
			}
			name, params, _, err := parseSig(strings.TrimSpace(rest[:i]))
			if err != nil {
				return fmt.Errorf("%s: %v", origin, err)
			}
			body, err := ParseExpr(strings.TrimSpace(rest[i+1:]))
			if err != nil {
				return fmt.Errorf("%s: pred %s: %v", origin, name, err)
			}
			ss.Preds[name] = &Pred{Pkg: pkgPrefix, Name: name, Params: params, Body: body, Src: rest}
			cur, curLoop = nil, nil
		case "guard":
			// guard Session.* by IRCServer.sessionsMu
			parts := strings.Fields(rest)
			except := map[string]bool{}
			if len(parts) == 5 && parts[3] == "except" {
				for _, x := range strings.Split(parts[4], ",") {
					except[x] = true
				}
				parts = parts[:3]
			}
			if len(parts) != 3 || parts[1] != "by" || !strings.Contains(parts[0], ".") || !strings.Contains(parts[2], ".") {
				return fmt.Errorf("%s: guard: want `guard Type.field by OwnerType.mutexfield`, got %q", origin, rest)
			}
			a, b := strings.SplitN(parts[0], ".", 2), strings.SplitN(parts[2], ".", 2)
			ss.Guards = append(ss.Guards, Guard{Pkg: pkgPrefix, Type: a[0], Field: a[1], OwnerType: b[0], MuField: b[1], Except: except})
			cur, curLoop = nil, nil
		case "ghostfield":
			// ghostfield Type.name type      (type: a scalar Go type, or set = set of integers, intmap = integers to integers)
			parts := strings.Fields(rest)
			if len(parts) != 2 || !strings.Contains(parts[0], ".") {
				return fmt.Errorf("%s: ghostfield: want `ghostfield Type.name type`, got %q", origin, rest)
			}
			k := strings.LastIndex(parts[0], ".")
			ss.GhostFields = append(ss.GhostFields, GhostField{Pkg: pkgPrefix, Type: parts[0][:k], Name: parts[0][k+1:], TypeText: parts[1]})
			cur, curLoop = nil, nil
		case "ghost":
			name, params, res, err := parseSig(rest)
			if err != nil {
				return fmt.Errorf("%s: %v", origin, err)
			}
			ss.Ghosts[name] = &GhostFunc{Name: name, Params: params, Result: res}
			cur, curLoop = nil, nil
		case "globalinv":
			cl, err := parseClause(rest)
			if err != nil {
				return fmt.Errorf("%s: globalinv: %v", origin, err)
			}
			ss.GlobalInvs = append(ss.GlobalInvs, GlobalInv{Pkg: pkgPrefix, Clause: cl, Origin: origin})
			cur, curLoop = nil, nil
		case "axiom":
			cl, err := parseClause(rest)
			if err != nil {
				return fmt.Errorf("%s: axiom: %v", origin, err)
			}
			ss.Axioms = append(ss.Axioms, cl)
			ss.AxiomPkg = append(ss.AxiomPkg, pkgPrefix)
			cur, curLoop = nil, nil
		default:
			return fmt.Errorf("%s: unknown directive %q", origin, d)
		}
	}
	ss.Files = append(ss.Files, origin)
	return nil
}

// parseSig parses "name(a T, b U) R".
func parseSig(s string) (string, []Binder, string, error) {
	i := strings.Index(s, "(")
	j := strings.LastIndex(s, ")")
	if i < 0 || j < i {
		return "", nil, "", fmt.Errorf("bad signature %q", s)
	}
	name := strings.TrimSpace(s[:i])
	var bs []Binder
	for _, p := range strings.Split(s[i+1:j], ",") {
		p = strings.TrimSpace(p)
		if p == "" {
			continue
		}
		f := strings.Fields(p)
		if len(f) != 2 {
			return "", nil, "", fmt.Errorf("bad parameter %q in %q", p, s)
		}
		bs = append(bs, Binder{f[0], f[1]})
	}
	return name, bs, strings.TrimSpace(s[j+1:]), nil
}

func splitTopLevel(s string) []string {
	var out []string
	depth := 0
	last := 0
	for i, c := range s {
		switch c {
		case '(', '[':
			depth++
		case ')', ']':
			depth--
		case ',':
			if depth == 0 {
				out = append(out, strings.TrimSpace(s[last:i]))
				last = i + 1
			}
		}
	}
	out = append(out, strings.TrimSpace(s[last:]))
	return out
}
