package vc

import (
	"fmt"
	"go/constant"
	"go/types"
	"strings"

	"golang.org/x/tools/go/ssa"
)

// SpecCtx evaluates spec expressions against a symbolic state.
type SpecCtx struct {
	u     *Unit
	st    *State // "current" heap
	old   *State // heap at function entry (old(...))
	env   map[string]*V
	pkg   *types.Package
	fr    *Frame // for source-variable lookup (may be nil)
	blk   *ssa.BasicBlock
	idx   int
	loop  *loopInfo
	nbind int
	useFrameVars bool
	patCands *[]T
	// hints: inside a quantifier, the terms evaluated so far that mention no bound variable (evalQuant)
	hints *[]T
}

func (f *Frame) specCtxAt(st *State, b *ssa.BasicBlock, idx int) *SpecCtx {
	env := map[string]*V{}
	for k, v := range f.lets {
		env[k] = v
	}
	return &SpecCtx{u: f.u, st: st, old: f.entry, env: env, pkg: pkgOf(f.fn), fr: f, blk: b, idx: idx, useFrameVars: true}
}

func (c *SpecCtx) fail(format string, a ...interface{}) {
	panic(unsupported("spec: " + fmt.Sprintf(format, a...)))
}

func (c *SpecCtx) evalBool(e Expr) T {
	v := c.eval(e)
	if v.T.Sort != SBool {
		c.fail("expected a boolean expression, got sort %q", v.T.Sort)
	}
	return v.T
}

func boolV(t T) *V { return &V{Typ: types.Typ[types.Bool], T: t} }
func intV(t T) *V  { return &V{Typ: types.Typ[types.Int], T: t} }

func (e *Engine) resolveType(name string, pkg *types.Package) types.Type {
	name = strings.TrimSpace(name)
	if strings.HasPrefix(name, "*") {
		t := e.resolveType(name[1:], pkg)
		if t == nil {
			return nil
		}
		return types.NewPointer(t)
	}
	if strings.HasPrefix(name, "[]") {
		t := e.resolveType(name[2:], pkg)
		if t == nil {
			return nil
		}
		return types.NewSlice(t)
	}
	if strings.HasPrefix(name, "map[") {
		depth := 0
		for i := 3; i < len(name); i++ {
			switch name[i] {
			case '[':
				depth++
			case ']':
				depth--
				if depth == 0 {
					k := e.resolveType(name[4:i], pkg)
					v := e.resolveType(name[i+1:], pkg)
					if k == nil || v == nil {
						return nil
					}
					return types.NewMap(k, v)
				}
			}
		}
		return nil
	}
	if strings.HasPrefix(name, "[") {
		// [N]T
		if i := strings.Index(name, "]"); i > 0 {
			var n int64
			fmt.Sscanf(name[1:i], "%d", &n)
			t := e.resolveType(name[i+1:], pkg)
			if t == nil {
				return nil
			}
			return types.NewArray(t, n)
		}
	}
	switch name {
	case "set":
		// ghost sets of integers: an SMT array Int -> Bool (indexing s[k] reads membership)
		return ghostSetType
	case "intmap":
		return ghostIntMapType
	}
	if o := types.Universe.Lookup(name); o != nil {
		if tn, ok := o.(*types.TypeName); ok {
			return tn.Type()
		}
	}
	if i := strings.Index(name, "."); i >= 0 {
		pn, tn := name[:i], name[i+1:]
		if pn == "pb" {
			// the conventional import alias of the generated protobuf package
			for _, p := range e.AllPkgs {
				if p.Types != nil && p.PkgPath == RepoModule+"/internal/proto" {
					if o := p.Types.Scope().Lookup(tn); o != nil {
						if t, ok := o.(*types.TypeName); ok {
							return t.Type()
						}
					}
				}
			}
			return nil
		}
		// imported by the current package under that name?
		if pkg != nil {
			for _, imp := range pkg.Imports() {
				if imp.Name() == pn {
					if o := imp.Scope().Lookup(tn); o != nil {
						if t, ok := o.(*types.TypeName); ok {
							return t.Type()
						}
					}
				}
			}
		}
		for _, p := range e.AllPkgs {
			if p.Types != nil && p.Types.Name() == pn {
				if o := p.Types.Scope().Lookup(tn); o != nil {
					if t, ok := o.(*types.TypeName); ok {
						return t.Type()
					}
				}
			}
		}
		return nil
	}
	if pkg != nil {
		if o := pkg.Scope().Lookup(name); o != nil {
			if t, ok := o.(*types.TypeName); ok {
				return t.Type()
			}
		}
	}
	return nil
}

var (
	ghostSetType    = types.NewArray(types.Typ[types.Bool], 1<<62)
	ghostIntMapType = types.NewArray(types.Typ[types.Int64], 1<<62)
)

type ghostInfo struct {
	key  string
	typ  types.Type
	sort Sort // sort of the heap array (Ref -> value)
}

// ghostOf resolves the ghost field name of type t (already dereferenced).
func (e *Engine) ghostOf(t types.Type, name string) *ghostInfo {
	if e.Specs == nil || len(e.Specs.GhostFields) == 0 {
		return nil
	}
	for _, g := range e.Specs.GhostFields {
		if g.Name != name {
			continue
		}
		var pkg *types.Package
		if g.Pkg != "" {
			pkg = e.PkgByName(g.Pkg)
		}
		rt := e.resolveType(g.Type, pkg)
		if rt == nil || !types.Identical(rt, t) {
			continue
		}
		ft := e.resolveType(g.TypeText, pkg)
		if ft == nil {
			panic(unsupported("ghostfield " + g.Type + "." + g.Name + ": unknown type " + g.TypeText))
		}
		vs, ok := scalarSort(ft)
		if !ok {
			panic(unsupported("ghostfield " + g.Type + "." + g.Name + ": type must be scalar, set or intmap"))
		}
		return &ghostInfo{key: "GF:" + typeKey(rt) + "." + g.Name, typ: ft, sort: arrSort(SInt, vs)}
	}
	return nil
}

// ghostKeys lists the heap keys of all declared ghost fields whose owner type is loaded.
func (e *Engine) ghostKeys() []hk {
	var out []hk
	if e.Specs == nil {
		return nil
	}
	for _, g := range e.Specs.GhostFields {
		var pkg *types.Package
		if g.Pkg != "" {
			pkg = e.PkgByName(g.Pkg)
		}
		rt := e.resolveType(g.Type, pkg)
		if rt == nil {
			continue
		}
		if gi := e.ghostOf(rt, g.Name); gi != nil {
			out = append(out, hk{key: gi.key, sort: gi.sort})
		}
	}
	return out
}

func isGhostKey(k string) bool { return strings.HasPrefix(k, "GF:") }

func (c *SpecCtx) lookupIdent(name string) *V {
	if v, ok := c.env[name]; ok {
		return v
	}
	if c.fr != nil && c.useFrameVars {
		if c.blk != nil {
			if v, ok := c.fr.lookupVar(name, c.blk, c.idx, c.st); ok {
				return v
			}
		}
		if v, ok := c.fr.params[name]; ok {
			return v
		}
	}
	// package level
	if c.pkg != nil {
		if o := c.pkg.Scope().Lookup(name); o != nil {
			return c.objValue(o)
		}
	}
	c.fail("unknown identifier %q", name)
	return nil
}

func (c *SpecCtx) objValue(o types.Object) *V {
	u := c.u
	switch x := o.(type) {
	case *types.Const:
		return u.constVal(ssa.NewConst(x.Val(), x.Type()))
	case *types.Var:
		if x.Pkg() != nil {
			if sp := u.eng.Prog.Package(x.Pkg()); sp != nil {
				if g, ok := sp.Members[x.Name()].(*ssa.Global); ok {
					p := u.globalPtr(g)
					fr := c.fr
					if fr == nil {
						fr = &Frame{u: u}
					}
					return fr.load(c.st, p)
				}
			}
		}
	}
	c.fail("cannot use %s in a spec", o)
	return nil
}

func (c *SpecCtx) withState(st *State) *SpecCtx {
	d := *c
	d.st = st
	return &d
}

// eval evaluates e; inside a quantifier it also notes the terms that do not depend on any bound
// variable (see evalQuant).
func (c *SpecCtx) eval(e Expr) *V {
	v := c.eval0(e)
	if c.hints != nil && v != nil && v.LV == nil {
		switch {
		case v.Sl != nil:
			c.noteGround(v.Sl.Arr, v.Sl.Off, v.Sl.Len)
		case v.F == nil:
			c.noteGround(v.T)
		}
	}
	return v
}

func (c *SpecCtx) noteGround(ts ...T) {
	for _, t := range ts {
		if (t.Sort != SInt && t.Sort != SStr) || !strings.HasPrefix(t.S, "(select ") || strings.Contains(t.S, "!b") || len(*c.hints) >= 64 {
			continue
		}
		dup := false
		for _, h := range *c.hints {
			if h.S == t.S {
				dup = true
			}
		}
		if !dup {
			*c.hints = append(*c.hints, t)
		}
	}
}

// groundHints wraps an outermost quantified formula q: (=> (and (ground!S t) ...) q) for the heap reads t
// inside q that depend on no bound variable. ground!S is true everywhere (axiom, triggered by its own
// application), so the formula is equivalent to q; the point is that the terms t now occur outside the
// binder, where the solver's E-graph holds them from the start: a read-over-write step about t (the
// object read is not the one just stored to) is then available to E-matching, which never looks under
// a binder for ground terms. Without this a goal "exists j :: ... p.f ..." over a heap with a pending
// store was proved or not depending on the random seed.
func (c *SpecCtx) groundHints(q T, hs []T) T {
	if len(hs) == 0 {
		return q
	}
	var atoms []string
	for _, h := range hs {
		name := "ground!" + strings.NewReplacer("(", "", ")", "", " ", "_").Replace(string(h.Sort))
		fn := c.u.declareFun(name, []Sort{h.Sort}, SBool)
		if !c.u.declared["ax:"+name] {
			c.u.declared["ax:"+name] = true
			c.u.emitDecl(fmt.Sprintf("(assert (forall ((x %s)) (! (%s x) :pattern ((%s x)))))", h.Sort, fn, fn))
		}
		atoms = append(atoms, fmt.Sprintf("(%s %s)", fn, h.S))
	}
	return T{fmt.Sprintf("(=> (and %s true) %s)", strings.Join(atoms, " "), q.S), SBool}
}

func (c *SpecCtx) eval0(e Expr) *V {
	u := c.u
	switch x := e.(type) {
	case *EIdent:
		return c.lookupIdent(x.Name)
	case *EInt:
		s := x.V
		if strings.HasPrefix(s, "0x") || strings.HasPrefix(s, "0X") {
			v := constant.MakeFromLiteral(s, 5 /*token.INT*/, 0)
			s = v.ExactString()
		}
		return intV(bigLit(s))
	case *EStr:
		return &V{Typ: types.Typ[types.String], T: u.strLit(x.V)}
	case *EBool:
		if x.V {
			return boolV(tTrue)
		}
		return boolV(tFalse)
	case *ENil:
		return &V{Typ: types.Typ[types.UntypedNil], T: intLit(0)}
	case *EOld:
		return c.withState(c.old).evalOld(x.X)
	case *EUn:
		a := c.eval(x.X)
		switch x.Op {
		case "!":
			return boolV(not(a.T))
		case "-":
			return &V{Typ: a.Typ, T: app(a.T.Sort, "-", a.T)}
		case "*":
			fr := c.fr
			if fr == nil {
				fr = &Frame{u: u}
			}
			return fr.load(c.st, a)
		}
	case *EBin:
		return c.evalBin(x)
	case *ESel:
		return c.evalSel(x)
	case *EIdx:
		return c.evalIdx(x)
	case *ESlice:
		a := c.eval(x.X)
		lo := intLit(0)
		if x.Lo != nil {
			lo = c.eval(x.Lo).T
		}
		if a.T.Sort == SStr {
			hi := strLen(a.T)
			if x.Hi != nil {
				hi = c.eval(x.Hi).T
			}
			return &V{Typ: a.Typ, T: strSub(a.T, lo, hi)}
		}
		if a.Sl != nil {
			hi := a.Sl.Len
			if x.Hi != nil {
				hi = c.eval(x.Hi).T
			}
			return &V{Typ: a.Typ, Sl: &SliceParts{a.Sl.Arr, app(SInt, "+", a.Sl.Off, lo), app(SInt, "-", hi, lo), app(SInt, "-", a.Sl.Cap, lo)}}
		}
		c.fail("slice expression on %s", typeKey(a.Typ))
	case *ECall:
		return c.evalCall(x)
	case *EQuant:
		return c.evalQuant(x)
	}
	c.fail("cannot evaluate %T", e)
	return nil
}

// evalOld evaluates with the entry heap; variables keep their current values
// (parameters are immutable in SSA; for reassigned locals write a let).
func (c *SpecCtx) evalOld(e Expr) *V { return c.eval(e) }

func (c *SpecCtx) evalBin(x *EBin) *V {
	u := c.u
	switch x.Op {
	case "&&":
		return boolV(and(c.evalBool(x.X), c.evalBool(x.Y)))
	case "||":
		return boolV(or(c.evalBool(x.X), c.evalBool(x.Y)))
	case "==>":
		return boolV(implies(c.evalBool(x.X), c.evalBool(x.Y)))
	case "<==>":
		return boolV(eq(c.evalBool(x.X), c.evalBool(x.Y)))
	case "in", "!in":
		k := c.eval(x.X)
		m := c.eval(x.Y)
		if _, ok := m.Typ.Underlying().(*types.Map); !ok {
			c.fail("'in' needs a map, got %s", typeKey(m.Typ))
		}
		mk := u.mapKeysOf(m.Typ)
		k = c.coerceTo(k, mk.kt)
		kt := u.keyTerm(k)
		if c.patCands != nil {
			*c.patCands = append(*c.patCands, sel(u.mapDom(c.st, mk, m.T), kt))
		}
		t := u.mapHas(c.st, mk, m.T, kt)
		if x.Op == "!in" {
			t = not(t)
		}
		return boolV(t)
	}
	a, b := c.eval(x.X), c.eval(x.Y)
	switch x.Op {
	case "==":
		a, b = c.unify(a, b)
		return boolV(u.valEq(a, b))
	case "!=":
		a, b = c.unify(a, b)
		return boolV(not(u.valEq(a, b)))
	}
	if a.T.Sort == SStr && x.Op == "+" {
		return &V{Typ: a.Typ, T: strConcat(a.T, b.T)}
	}
	if a.T.Sort != SInt && a.T.Sort != SReal || b.T.Sort != a.T.Sort {
		c.fail("operator %s on sorts %s, %s", x.Op, a.T.Sort, b.T.Sort)
	}
	rt := a.Typ
	if _, isConst := x.X.(*EInt); isConst {
		rt = b.Typ
	}
	switch x.Op {
	case "+", "-", "*":
		return &V{Typ: rt, T: app(a.T.Sort, x.Op, a.T, b.T)}
	case "/":
		if a.T.Sort == SReal {
			return &V{Typ: rt, T: app(SReal, "/", a.T, b.T)}
		}
		return &V{Typ: rt, T: truncDiv(a.T, b.T)}
	case "%":
		return &V{Typ: rt, T: app(SInt, "-", a.T, app(SInt, "*", b.T, truncDiv(a.T, b.T)))}
	case "<", "<=", ">", ">=":
		return boolV(app(SBool, x.Op, a.T, b.T))
	}
	c.fail("operator %s", x.Op)
	return nil
}

// unify adapts nil / untyped constants to the other operand's shape.
func (c *SpecCtx) unify(a, b *V) (*V, *V) {
	isNil := func(v *V) bool { return v.Typ == types.Typ[types.UntypedNil] }
	if isNil(a) && b.Sl != nil {
		return c.u.zeroVal(b.Typ), b
	}
	if isNil(b) && a.Sl != nil {
		return a, c.u.zeroVal(a.Typ)
	}
	return a, b
}

func (c *SpecCtx) coerceTo(v *V, t types.Type) *V {
	if v.F == nil && v.Sl == nil {
		w := *v
		w.Typ = t
		return &w
	}
	return v
}

func derefType(t types.Type) (types.Type, bool) {
	if p, ok := t.Underlying().(*types.Pointer); ok {
		return p.Elem(), true
	}
	return t, false
}

func (c *SpecCtx) evalSel(x *ESel) *V {
	u := c.u
	// package-qualified name?
	if id, ok := x.X.(*EIdent); ok {
		if _, bound := c.env[id.Name]; !bound {
			if p := c.importedPkg(id.Name); p != nil {
				if c.fr == nil || !c.hasVar(id.Name) {
					if o := p.Scope().Lookup(x.F); o != nil {
						return c.objValue(o)
					}
				}
			}
		}
	}
	a := c.eval(x.X)
	// slice pseudo-fields are not exposed; struct fields only
	t, isPtr := derefType(a.Typ)
	if gi := u.eng.ghostOf(t, x.F); gi != nil {
		if a.LV != nil || a.F != nil || a.Sl != nil || a.T.Sort != SInt {
			c.fail("ghost field .%s needs an object reference", x.F)
		}
		return &V{Typ: gi.typ, T: sel(u.heapGet(c.st, gi.key, gi.sort), a.T)}
	}
	st := structOf(t)
	if st == nil {
		c.fail("selector .%s on non-struct %s", x.F, typeKey(a.Typ))
	}
	// direct field
	for i := 0; i < st.NumFields(); i++ {
		if st.Field(i).Name() == x.F {
			if isPtr {
				if a.LV != nil {
					if a.LV.Kind != "elem" {
						c.fail("field of interior pointer")
					}
					lv := *a.LV
					lv.Key += "." + x.F
					lv.Typ = st.Field(i).Type()
					fr := &Frame{u: u}
					return fr.load(c.st, &V{Typ: types.NewPointer(lv.Typ), LV: &lv})
				}
				return u.loadField(c.st, structKey(t), st.Field(i), a.T)
			}
			return a.F[i]
		}
	}
	// promoted through embedded fields
	for i := 0; i < st.NumFields(); i++ {
		if st.Field(i).Embedded() {
			inner := &ESel{X: &ESel{X: x.X, F: st.Field(i).Name()}, F: x.F}
			et, _ := derefType(st.Field(i).Type())
			if es := structOf(et); es != nil {
				for j := 0; j < es.NumFields(); j++ {
					if es.Field(j).Name() == x.F {
						return c.eval(inner)
					}
				}
			}
		}
	}
	c.fail("no field %s in %s", x.F, typeKey(t))
	return nil
}

func (c *SpecCtx) hasVar(name string) bool {
	if c.fr == nil {
		return false
	}
	if _, ok := c.fr.params[name]; ok {
		return true
	}
	return len(c.fr.varRefs[name]) > 0
}

func (c *SpecCtx) importedPkg(name string) *types.Package {
	if c.pkg != nil {
		for _, imp := range c.pkg.Imports() {
			if imp.Name() == name {
				return imp
			}
		}
		if c.pkg.Name() == name {
			return c.pkg
		}
	}
	for _, p := range c.u.eng.AllPkgs {
		if p.Types != nil && p.Types.Name() == name && strings.HasPrefix(p.PkgPath, RepoModule) {
			return p.Types
		}
	}
	return nil
}

func (c *SpecCtx) evalIdx(x *EIdx) *V {
	u := c.u
	a := c.eval(x.X)
	if a.T.Sort == SStr {
		return intV(strAt(a.T, c.eval(x.I).T))
	}
	if a.Sl != nil {
		et := a.Typ.Underlying().(*types.Slice).Elem()
		i := c.eval(x.I).T
		return u.loadLeaves(c.st, et, func(l Leaf) T {
			row := sel(u.heapGet(c.st, "E:"+typeKey(et)+l.Path, arrSort(SInt, arrSort(SInt, l.Sort))), a.Sl.Arr)
			return sel(row, u.sidx(a.Sl.Off, i))
		})
	}
	switch t := a.Typ.Underlying().(type) {
	case *types.Map:
		mk := u.mapKeysOf(a.Typ)
		k := c.coerceTo(c.eval(x.I), mk.kt)
		return u.mapValRaw(c.st, mk, a.T, u.keyTerm(k))
	case *types.Array:
		return &V{Typ: t.Elem(), T: sel(a.T, c.eval(x.I).T)}
	case *types.Pointer:
		if at, ok := t.Elem().Underlying().(*types.Array); ok {
			es, _ := scalarSort(at.Elem())
			arr := sel(u.heapGet(c.st, "E:"+typeKey(at.Elem()), arrSort(SInt, arrSort(SInt, es))), a.T)
			return &V{Typ: at.Elem(), T: sel(arr, c.eval(x.I).T)}
		}
	}
	c.fail("index on %s", typeKey(a.Typ))
	return nil
}

func (c *SpecCtx) evalQuant(x *EQuant) *V {
	u := c.u
	d := *c
	d.env = map[string]*V{}
	for k, v := range c.env {
		d.env[k] = v
	}
	var decls []string
	for _, b := range x.Vars {
		t := u.eng.resolveType(b.Type, c.pkg)
		if t == nil {
			c.fail("unknown type %q in quantifier", b.Type)
		}
		u.nbind++
		var ts []T
		for _, l := range flatten(t) {
			name := quoteSym(fmt.Sprintf("%s!b%d%s", b.Name, u.nbind, l.Path))
			decls = append(decls, fmt.Sprintf("(%s %s)", name, l.Sort))
			ts = append(ts, T{name, l.Sort})
		}
		d.env[b.Name] = fromLeaves(t, &ts)
	}
	var cands []T
	if x.Forall {
		d.patCands = &cands
	} else {
		d.patCands = nil
	}
	outermost := c.hints == nil && c.u.ghints
	if outermost {
		d.hints = &[]T{}
		r := c.evalQuantIn(&d, x, decls, &cands)
		return boolV(c.groundHints(r.T, *d.hints))
	}
	return c.evalQuantIn(&d, x, decls, &cands)
}

func (c *SpecCtx) evalQuantIn(dp *SpecCtx, x *EQuant, decls []string, candsp *[]T) *V {
	u := c.u
	d := *dp
	body := d.evalBool(x.Body)
	q := "forall"
	if !x.Forall {
		q = "exists"
	}
	if x.Forall && len(x.Triggers) > 0 {
		var pats []string
		for _, te := range x.Triggers {
			tv := d.eval(te)
			if tv.T.Sort == SBool {
				// a membership atom: use the underlying select term
				var c2 []T
				d2 := d
				d2.patCands = &c2
				d2.eval(te)
				if len(c2) > 0 {
					pats = append(pats, c2[0].S)
					continue
				}
			}
			for _, l := range tv.leaves() {
				pats = append(pats, l.S)
			}
		}
		return boolV(T{fmt.Sprintf("(forall (%s) (! %s :pattern (%s)))", strings.Join(decls, " "), body.S, strings.Join(pats, " ")), SBool})
	}
	// trigger inference: membership atoms `k in m` whose terms mention bound variables of this
	// quantifier only (no inner-bound ones) and together cover all of them
	cands := *candsp
	if x.Forall && len(cands) > 0 && u.eng.InferPatterns {
		var names []string
		for _, dcl := range decls {
			names = append(names, strings.Fields(strings.Trim(dcl, "()"))[0])
		}
		covered := map[string]bool{}
		var pats []string
		for _, cand := range cands {
			if strings.Contains(cand.S, "!b") {
				// must not mention a bound variable of another (inner) quantifier
				ok := true
				for _, tok := range tokRe.FindAllString(cand.S, -1) {
					if strings.Contains(tok, "!b") {
						mine := false
						for _, n := range names {
							if tok == n {
								mine = true
							}
						}
						if !mine {
							ok = false
						}
					}
				}
				if !ok {
					continue
				}
			}
			adds := false
			for _, n := range names {
				if !covered[n] && containsTok(cand.S, n) {
					adds = true
				}
			}
			if !adds {
				continue
			}
			for _, n := range names {
				if containsTok(cand.S, n) {
					covered[n] = true
				}
			}
			pats = append(pats, cand.S)
		}
		all := true
		for _, n := range names {
			if !covered[n] {
				all = false
			}
		}
		if all && len(pats) > 0 {
			return boolV(T{fmt.Sprintf("(forall (%s) (! %s :pattern (%s)))", strings.Join(decls, " "), body.S, strings.Join(pats, " ")), SBool})
		}
	}
	return boolV(T{fmt.Sprintf("(%s (%s) %s)", q, strings.Join(decls, " "), body.S), SBool})
}

func (c *SpecCtx) evalCall(x *ECall) *V {
	u := c.u
	// method call or package-qualified function
	if sel, ok := x.Fn.(*ESel); ok {
		if id, ok := sel.X.(*EIdent); ok {
			if _, bound := c.env[id.Name]; !bound && !c.hasVar(id.Name) {
				if p := c.importedPkg(id.Name); p != nil {
					if fo, ok := p.Scope().Lookup(sel.F).(*types.Func); ok {
						return c.callGoFunc(u.eng.Prog.FuncValue(fo), c.evalArgs(x.Args))
					}
					c.fail("no function %s.%s", id.Name, sel.F)
				}
			}
		}
		recv := c.eval(sel.X)
		obj, _, _ := types.LookupFieldOrMethod(recv.Typ, true, c.pkg, sel.F)
		fo, ok := obj.(*types.Func)
		if !ok {
			c.fail("no method %s on %s", sel.F, typeKey(recv.Typ))
		}
		fn := u.eng.Prog.FuncValue(fo)
		if fn == nil {
			c.fail("method %s has no SSA function", sel.F)
		}
		args := append([]*V{recv}, c.evalArgs(x.Args)...)
		// adapt receiver: value method called on pointer or vice versa
		if rp := fn.Signature.Recv(); rp != nil {
			_, wantPtr := rp.Type().Underlying().(*types.Pointer)
			_, havePtr := recv.Typ.Underlying().(*types.Pointer)
			if havePtr && !wantPtr {
				fr := &Frame{u: u}
				args[0] = fr.load(c.st, recv)
			}
		}
		return c.callGoFunc(fn, args)
	}
	id, ok := x.Fn.(*EIdent)
	if !ok {
		c.fail("unsupported callee expression")
	}
	name := id.Name
	switch name {
	case "len":
		a := c.eval(x.Args[0])
		switch {
		case a.Sl != nil:
			return intV(a.Sl.Len)
		case a.T.Sort == SStr:
			return intV(strLen(a.T))
		}
		if _, ok := a.Typ.Underlying().(*types.Map); ok {
			return intV(u.mapCard(c.st, u.mapKeysOf(a.Typ), a.T))
		}
		c.fail("len of %s", typeKey(a.Typ))
	case "abs":
		a := c.eval(x.Args[0])
		return &V{Typ: a.Typ, T: ite(app(SBool, ">=", a.T, intLit(0)), a.T, app(SInt, "-", a.T))}
	case "ite":
		cond := c.evalBool(x.Args[0])
		return u.iteVal(cond, c.eval(x.Args[1]), c.eval(x.Args[2]))
	case "seen":
		// visited set of the enclosing map-range loop
		var it *iterInfo
		if len(x.Args) == 2 {
			ks, ok := x.Args[1].(*EStr)
			if !ok || c.fr == nil {
				c.fail("seen(k, \"loop key\") expects a string literal")
			}
			for _, li := range c.fr.loops {
				if li.key == ks.V || li.key == ks.V+" #0" {
					it = li.iter
				}
			}
			if it == nil {
				c.fail("seen(): no map-range loop %q (or not yet entered)", ks.V)
			}
		} else {
			if c.loop == nil || c.loop.iter == nil {
				c.fail("seen() outside a map-range loop invariant")
			}
			it = c.loop.iter
		}
		mk := u.mapKeysOf(it.m.Typ)
		k := c.coerceTo(c.eval(x.Args[0]), mk.kt)
		return boolV(sel(u.heapGet(c.st, it.seenKey, arrSort(mk.ks, SBool)), u.keyTerm(k)))
	case "allocated":
		a := c.eval(x.Args[0])
		at := a.T
		if a.Sl != nil {
			at = a.Sl.Arr
		}
		return boolV(and(app(SBool, "<=", app(SInt, "root", at), c.st.alloc)))
	case "fresh":
		// allocated during the call/function: above the entry watermark
		a := c.eval(x.Args[0])
		at := a.T
		if a.Sl != nil {
			at = a.Sl.Arr
		}
		return boolV(app(SBool, ">", at, c.old.alloc))
	case "mk":
		// mk("pkg.Type", field values...) builds a struct value
		ts, ok := x.Args[0].(*EStr)
		if !ok {
			c.fail("mk expects a type name string")
		}
		t := u.eng.resolveType(ts.V, c.pkg)
		st := structOf(t)
		if st == nil || st.NumFields() != len(x.Args)-1 {
			c.fail("mk(%q): not a struct type with %d fields", ts.V, len(x.Args)-1)
		}
		v := &V{Typ: t, F: make([]*V, st.NumFields())}
		for k := 0; k < st.NumFields(); k++ {
			v.F[k] = c.coerceTo(c.eval(x.Args[k+1]), st.Field(k).Type())
		}
		return v
	case "athead":
		// athead(v): the value the loop-carried variable v had at the head of the innermost enclosing loop
		// (i.e. before the current iteration changed it)
		id, isId := x.Args[0].(*EIdent)
		if !isId || c.fr == nil || c.blk == nil {
			c.fail("athead expects a local variable inside a loop")
		}
		if v, ok := c.fr.loopHeadValue(id.Name, c.blk, c.st); ok {
			return v
		}
		c.fail("athead(%s): no enclosing loop carries that variable", id.Name)
	case "zerotime":
		// the zero value of time.Time
		tt := c.u.eng.resolveType("time.Time", c.pkg)
		if tt == nil {
			c.fail("zerotime: package time is not loaded")
		}
		return &V{Typ: tt, T: intLit(0)}
	case "toplevel":
		// a separately allocated object (not a struct embedded in another object, not nil)
		a := c.eval(x.Args[0])
		return boolV(app(SBool, ">", a.T, intLit(0)))
	case "isnumeric":
		a := c.eval(x.Args[0])
		dig := func(k int64) T {
			return and(app(SBool, ">=", strAt(a.T, intLit(k)), intLit(48)), app(SBool, "<=", strAt(a.T, intLit(k)), intLit(57)))
		}
		return boolV(and(eq(strLen(a.T), intLit(3)), dig(0), dig(1), dig(2)))
	case "addrof":
		// addrof(x.f): the address of an embedded struct field (e.g. &s.ircPrefix)
		if id, isId := x.Args[0].(*EIdent); isId {
			// addrof(v): the cell of an addressable local variable (var v T; ... &v)
			if c.fr != nil && c.blk != nil {
				if v, ok := c.fr.lookupVarAddr(id.Name); ok {
					return v
				}
			}
			c.fail("addrof(%s): not an addressable local variable", id.Name)
		}
		se, ok := x.Args[0].(*ESel)
		if !ok {
			c.fail("addrof expects a field selector")
		}
		b := c.eval(se.X)
		t, isPtr := derefType(b.Typ)
		st := structOf(t)
		if !isPtr || st == nil {
			c.fail("addrof: base is not a pointer to a struct")
		}
		for k := 0; k < st.NumFields(); k++ {
			if st.Field(k).Name() == se.F {
				return &V{Typ: types.NewPointer(st.Field(k).Type()), T: u.emb(structKey(t), se.F, b.T)}
			}
		}
		c.fail("addrof: no field %s", se.F)
	case "samearray":
		a, b := c.eval(x.Args[0]), c.eval(x.Args[1])
		if a.Sl == nil || b.Sl == nil {
			c.fail("samearray expects two slices")
		}
		return boolV(eq(a.Sl.Arr, b.Sl.Arr))
	case "sameslice":
		a, b := c.eval(x.Args[0]), c.eval(x.Args[1])
		if a.Sl == nil || b.Sl == nil {
			c.fail("sameslice expects two slices")
		}
		return boolV(and(eq(a.Sl.Len, b.Sl.Len), or(eq(a.Sl.Len, intLit(0)), and(eq(a.Sl.Arr, b.Sl.Arr), eq(a.Sl.Off, b.Sl.Off)))))
	case "hasprefix":
		a, b := c.eval(x.Args[0]), c.eval(x.Args[1])
		return boolV(and(app(SBool, "<=", strLen(b.T), strLen(a.T)), eq(strSub(a.T, intLit(0), strLen(b.T)), b.T)))
	}
	if p, ok := u.eng.Specs.Preds[name]; ok {
		if len(p.Params) != len(x.Args) {
			c.fail("pred %s: want %d args", name, len(p.Params))
		}
		d := *c
		d.env = map[string]*V{}
		// predicates are evaluated in the package that defines them
		if p.Pkg != "" && (c.pkg == nil || c.pkg.Name() != p.Pkg) {
			for _, pp := range u.eng.AllPkgs {
				if pp.Types != nil && pp.Types.Name() == p.Pkg && strings.HasPrefix(pp.PkgPath, RepoModule) {
					d.pkg = pp.Types
				}
			}
		}
		// predicates see only their parameters (and globals)
		for i, b := range p.Params {
			v := c.eval(x.Args[i])
			if t := u.eng.resolveType(b.Type, d.pkg); t != nil {
				v = c.coerceTo(v, t)
			}
			d.env[b.Name] = v
		}
		d.useFrameVars = false
		return d.eval(p.Body)
	}
	if g, ok := u.eng.Specs.Ghosts[name]; ok {
		args := c.evalArgs(x.Args)
		var ats []T
		var asorts []Sort
		for _, a := range args {
			for _, l := range a.leaves() {
				ats = append(ats, l)
				asorts = append(asorts, l.Sort)
			}
		}
		rt := u.eng.resolveType(g.Result, c.pkg)
		if rt == nil {
			c.fail("ghost %s: unknown result type %q", name, g.Result)
		}
		rs, ok := scalarSort(rt)
		if !ok {
			c.fail("ghost %s: result must be scalar", name)
		}
		q := u.declareFun("ghost!"+name, asorts, rs)
		if len(ats) == 0 {
			return &V{Typ: rt, T: T{q, rs}}
		}
		return &V{Typ: rt, T: app(rs, q, ats...)}
	}
	// a Go function of the current package
	if c.pkg != nil {
		if fo, ok := c.pkg.Scope().Lookup(name).(*types.Func); ok {
			return c.callGoFunc(u.eng.Prog.FuncValue(fo), c.evalArgs(x.Args))
		}
	}
	c.fail("unknown function %q", name)
	return nil
}

func (c *SpecCtx) evalArgs(es []Expr) []*V {
	var vs []*V
	for _, e := range es {
		vs = append(vs, c.eval(e))
	}
	return vs
}

// callGoFunc refers to a Go function inside a spec: it stands for the
// uninterpreted function that also models calls to it in code (pure
// functions and deterministic dependencies).
func (c *SpecCtx) callGoFunc(fn *ssa.Function, args []*V) *V {
	u := c.u
	if fn == nil {
		c.fail("function has no SSA form")
	}
	name := ShortName(fn)
	if m := specIntrinsics[name]; m != nil {
		return m(c, args)
	}
	ct := u.eng.Specs.Contracts[name]
	if ct != nil && !ct.Pure {
		c.fail("function %s used in a spec must be declared pure", name)
	}
	if ct == nil && isRepoFunc(fn) {
		c.fail("function %s used in a spec needs a pure contract", name)
	}
	// coerce argument types to the parameter types (untyped constants)
	for i := range args {
		if i < len(fn.Params) {
			args[i] = c.coerceTo(args[i], fn.Params[i].Type())
		}
	}
	u.pureAxiom(name, fn, fn.Signature, ct, pkgOf(fn))
	rs := u.ufResults("fn!"+name, fn.Signature, args, nil)
	if len(rs) == 1 {
		return rs[0]
	}
	return &V{Typ: fn.Signature.Results(), F: rs}
}

// evalGoal evaluates a proof goal; top-level universal quantifiers are
// replaced by fresh constants (equivalent for validity) so that a
// counter-model names the witnesses.
func (c *SpecCtx) evalGoal(e Expr) T {
	q, ok := e.(*EQuant)
	if !ok || !q.Forall {
		return c.evalBool(e)
	}
	u := c.u
	d := *c
	d.env = map[string]*V{}
	for k, v := range c.env {
		d.env[k] = v
	}
	for _, b := range q.Vars {
		t := u.eng.resolveType(b.Type, c.pkg)
		if t == nil {
			c.fail("unknown type %q in quantifier", b.Type)
		}
		var ts []T
		for _, l := range flatten(t) {
			k := u.fresh("sk!"+b.Name+l.Path, l.Sort)
			ts = append(ts, k)
			if l.Sort == SInt || l.Sort == SBool {
				u.addModelVar(k.S, "witness "+b.Name+l.Path)
			}
		}
		d.env[b.Name] = fromLeaves(t, &ts)
	}
	return d.evalGoal(q.Body)
}

func containsTok(s, tok string) bool {
	for _, t := range tokRe.FindAllString(s, -1) {
		if t == tok {
			return true
		}
	}
	return false
}
