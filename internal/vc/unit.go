package vc

import (
	"fmt"
	"go/types"
	"sort"
	"strings"
)

// Item is one element of the linear SMT script of a unit.
type Item struct {
	Kind string // "decl" | "fact" | "oblig"
	Text string
	Ob   *Oblig
}

// Oblig is a named proof obligation.
type Oblig struct {
	Name    string // <pkg>.<func>/<kind>/<anchor>
	Kind    string
	Func    string
	Goal    string // human-readable goal
	Query   string // the SMT text between push and pop (assert reach, assert not goal)
	Index   int    // position in unit.items
	Status  string // "unsat" (discharged) | "sat" | "unknown" | "timeout" | "error"
	Solver  string
	Seconds float64
	Model   string
	Cover   bool   // a cover check: expected answer is "sat"
	ModelVars []string // terms to query with get-value when sat
	Src     string
}

// State is the symbolic machine state at a program point.
type State struct {
	reach T
	heap  map[string]T
	alloc T
	epoch int
}

func (s *State) clone() *State {
	h := make(map[string]T, len(s.heap))
	for k, v := range s.heap {
		h[k] = v
	}
	return &State{reach: s.reach, heap: h, alloc: s.alloc, epoch: s.epoch}
}

// Unit is the verification of one function (one SMT script).
type Unit struct {
	eng      *Engine
	refDefs  map[string]string // named allocation references (new!...) -> their defining term
	// sidx0 (contract option `opt sidx0 = true`): wrap slice positions in sidx(off, i) also for the
	// literal offset 0, so that quantifier instantiation can match positions of a slice whose offset
	// is only known to be 0 after a merge of branches
	sidx0 bool
	// entry-heap closure: keys whose leaves are references, and the entry allocation watermark
	refKeys map[string]bool
	alloc0  T
	name     string
	items    []Item
	declared map[string]bool
	nfresh   int
	heapSort map[string]Sort
	strLits  map[string]T
	exact    bool
	obls     []*Oblig
	oblNames map[string]int
	backpat  bool // opt backpatterns
	ghints   bool // opt groundhints
	// AssumedLabels: clause labels used as hypotheses without an obligation in this unit (AssumeGroups)
	AssumedLabels map[string]bool
	assumptions map[string]bool // textual assumptions used (reported in evidence)
	nopanic  bool               // generate nopanic obligations
	embFuncs map[string]bool
	dtypes   map[string]bool
	inlineDepth int
	errors   []string
	tagOf    map[string]int
	cover    bool
	writeLog *[]writeRec
	epochParents map[int][]epochParent
	nepoch   int
	immutableGlobal map[string]bool
	recoverHook func() *V
	sentinels []T
	embTags   map[string]int
	dry       int
	nbind     int
	defDeps   map[string]termDeps
	opts      UnitOpts
	boxedSlices map[string]*V
	epochSnaps map[int]epochSnap
	localRefs  []T // references of non-escaping local variables of the frames being executed
	strDeclared, rootDeclared bool
	modelVars []string          // scalar inputs (parameter leaves, skolems) worth querying in a model
	ModelNames map[string]string // SMT term -> human name
}

func newUnit(eng *Engine, name string) *Unit {
	u := &Unit{eng: eng, name: name, declared: map[string]bool{}, heapSort: map[string]Sort{},
		strLits: map[string]T{}, oblNames: map[string]int{}, AssumedLabels: map[string]bool{}, assumptions: map[string]bool{},
		embFuncs: map[string]bool{}, dtypes: map[string]bool{}, tagOf: map[string]int{}, immutableGlobal: map[string]bool{}}
	u.prelude()
	return u
}

func (u *Unit) emitDecl(text string) {
	u.need(text)
	u.items = append(u.items, Item{Kind: "decl", Text: text})
}
func (u *Unit) emitFact(t T) {
	if t.S == "true" {
		return
	}
	u.need(t.S)
	u.items = append(u.items, Item{Kind: "fact", Text: "(assert " + t.S + ")"})
}

// assume adds t under the current reach condition.
func (u *Unit) assume(st *State, t T) { u.emitFact(implies(st.reach, t)) }

func (u *Unit) prelude() {}

const strPrelude = `
(declare-sort Str 0)
(declare-fun s.len (Str) Int)
(declare-fun s.at (Str Int) Int)
(declare-fun s.concat (Str Str) Str)
(declare-fun s.sub (Str Int Int) Str)
(declare-const s.empty Str)
(assert (forall ((s Str)) (! (>= (s.len s) 0) :pattern ((s.len s)))))
(assert (= (s.len s.empty) 0))
(assert (forall ((s Str)) (! (=> (= (s.len s) 0) (= s s.empty)) :pattern ((s.len s)))))
(assert (forall ((a Str) (b Str)) (! (= (s.len (s.concat a b)) (+ (s.len a) (s.len b))) :pattern ((s.concat a b)))))
(assert (forall ((a Str) (b Str) (i Int)) (! (= (s.at (s.concat a b) i) (ite (< i (s.len a)) (s.at a i) (s.at b (- i (s.len a))))) :pattern ((s.at (s.concat a b) i)))))
(assert (forall ((s Str) (lo Int) (hi Int)) (! (=> (and (<= 0 lo) (<= lo hi) (<= hi (s.len s))) (= (s.len (s.sub s lo hi)) (- hi lo))) :pattern ((s.sub s lo hi)))))
(assert (forall ((s Str) (lo Int) (hi Int) (i Int)) (! (=> (and (<= 0 lo) (<= lo hi) (<= hi (s.len s)) (<= 0 i) (< i (- hi lo))) (= (s.at (s.sub s lo hi) i) (s.at s (+ lo i)))) :pattern ((s.at (s.sub s lo hi) i)))))
(assert (forall ((s Str) (i Int)) (! (and (<= 0 (s.at s i)) (<= (s.at s i) 255)) :pattern ((s.at s i)))))
(assert (forall ((a Str)) (! (= (s.concat a s.empty) a) :pattern ((s.concat a s.empty)))))
(assert (forall ((a Str)) (! (= (s.concat s.empty a) a) :pattern ((s.concat s.empty a)))))
`

const rootPrelude = `
(declare-fun root (Int) Int)
(assert (forall ((p Int)) (! (=> (>= p 0) (= (root p) p)) :pattern ((root p)))))
`

func (u *Unit) need(text string) {
	if !u.strDeclared && (strings.Contains(text, "Str") || strings.Contains(text, "s.empty") || strings.Contains(text, "(s.")) {
		u.strDeclared = true
		for _, l := range strings.Split(strings.TrimSpace(strPrelude), "\n") {
			u.items = append(u.items, Item{Kind: "decl", Text: l})
		}
	}
	if !u.rootDeclared && strings.Contains(text, "(root ") {
		u.rootDeclared = true
		for _, l := range strings.Split(strings.TrimSpace(rootPrelude), "\n") {
			u.items = append(u.items, Item{Kind: "decl", Text: l})
		}
	}
}

func (u *Unit) fresh(hint string, sort Sort) T {
	u.nfresh++
	name := quoteSym(fmt.Sprintf("%s!%d", sanitize(hint), u.nfresh))
	u.emitDecl(fmt.Sprintf("(declare-const %s %s)", name, sort))
	return T{name, sort}
}

// define names a term (zero logical cost) to keep the script small.
func (u *Unit) define(hint string, t T) T {
	if len(t.S) < 24 {
		return t
	}
	u.nfresh++
	name := quoteSym(fmt.Sprintf("%s!%d", sanitize(hint), u.nfresh))
	u.emitDecl(fmt.Sprintf("(define-fun %s () %s %s)", name, t.Sort, t.S))
	if u.defDeps == nil {
		u.defDeps = map[string]termDeps{}
	}
	d := u.depsOf(t.S)
	if u.nfresh > d.maxNum && u.dry > 0 {
		// a name introduced during a dry run is still only as "new" as what it depends on
	}
	u.defDeps[name] = d
	return T{name, t.Sort}
}

func (u *Unit) declareFun(name string, args []Sort, res Sort) string {
	q := quoteSym(name)
	if !u.declared["fun:"+name] {
		u.declared["fun:"+name] = true
		u.emitDecl(fmt.Sprintf("(declare-fun %s (%s) %s)", q, strings.Join(args, " "), res))
	}
	return q
}

func (u *Unit) note(assumption string) { u.assumptions[assumption] = true }

// ---------------------------------------------------------------------------
// strings

func (u *Unit) strLit(s string) T {
	if s == "" {
		return T{"s.empty", SStr}
	}
	if t, ok := u.strLits[s]; ok {
		return t
	}
	u.nfresh++
	hint := s
	if len(hint) > 12 {
		hint = hint[:12]
	}
	var hb strings.Builder
	for _, r := range hint {
		if r >= 'a' && r <= 'z' || r >= 'A' && r <= 'Z' || r >= '0' && r <= '9' {
			hb.WriteRune(r)
		} else {
			hb.WriteByte('_')
		}
	}
	name := quoteSym(fmt.Sprintf("lit!%d!%s", u.nfresh, hb.String()))
	u.emitDecl(fmt.Sprintf("(declare-const %s Str)", name))
	t := T{name, SStr}
	u.emitFact(eq(app(SInt, "s.len", t), intLit(int64(len(s)))))
	if len(s) <= 64 {
		for i := 0; i < len(s); i++ {
			u.emitFact(eq(app(SInt, "s.at", t, intLit(int64(i))), intLit(int64(s[i]))))
		}
	}
	// distinct from every earlier literal
	var keys []string
	for k := range u.strLits {
		keys = append(keys, k)
	}
	sort.Strings(keys)
	for _, k := range keys {
		u.emitFact(not(eq(t, u.strLits[k])))
	}
	u.strLits[s] = t
	return t
}

func strLen(s T) T        { return app(SInt, "s.len", s) }
func strAt(s, i T) T      { return app(SInt, "s.at", s, i) }
func strConcat(a, b T) T  { return app(SStr, "s.concat", a, b) }
func strSub(s, lo, hi T) T { return app(SStr, "s.sub", s, lo, hi) }

// ---------------------------------------------------------------------------
// arithmetic

func (u *Unit) wrapTo(t T, typ types.Type) T {
	if !u.exact || !isInteger(typ) {
		return t
	}
	bits := intBits(typ)
	m := pow2(bits)
	if isUnsigned(typ) {
		return app(SInt, "mod", t, T{m, SInt})
	}
	h := pow2(bits - 1)
	return T{fmt.Sprintf("(- (mod (+ %s %s) %s) %s)", t.S, h, m, h), SInt}
}

// ---------------------------------------------------------------------------
// heap

func (u *Unit) heapInit(key string, sort Sort) T { return u.epochInit(key, sort, 0) }

type epochParent struct {
	cond  T
	epoch int
}

// epochSnap remembers the heap before a "modifies everything" havoc so that
// non-escaping local variables of the running frames keep their contents.
type epochSnap struct {
	heap     map[string]T
	prev     int
	preserve []T
}

// epochInit returns the constant that stands for the contents of key at the
// beginning of epoch ep (epoch 0 = function entry; a new epoch starts after a
// call that may modify everything).
func (u *Unit) epochInit(key string, sort Sort, ep int) T {
	if s, ok := u.heapSort[key]; ok {
		if s != sort {
			panic(fmt.Sprintf("heap key %s used with sorts %s and %s", key, s, sort))
		}
	} else {
		u.heapSort[key] = sort
	}
	name := "H0!" + key
	if ep > 0 {
		name = fmt.Sprintf("H0e%d!%s", ep, key)
	}
	q := quoteSym(name)
	if !u.declared["h:"+name] {
		u.declared["h:"+name] = true
		u.emitDecl(fmt.Sprintf("(declare-const %s %s)", q, sort))
		for _, p := range u.epochParents[ep] {
			u.emitFact(implies(p.cond, eq(T{q, sort}, u.epochInit(key, sort, p.epoch))))
		}
		if ep == 0 && u.refKeys[key] {
			u.closureAxiom(key)
		}
		if sn, ok := u.epochSnaps[ep]; ok && len(sn.preserve) > 0 && !strings.HasPrefix(key, "IT:") {
			old, has := sn.heap[key]
			if !has {
				old = u.epochInit(key, sort, sn.prev)
			}
			for _, r := range sn.preserve {
				u.emitFact(eq(sel(T{q, sort}, r), sel(old, r)))
			}
		}
	}
	return T{q, sort}
}

// markRefKey records that the leaves stored under key are references. The heap
// a function starts in is closed: every reference stored in it denotes an
// object that already exists (root <= alloc0), so nothing in the entry heap
// can point to an object the function allocates later.
func (u *Unit) markRefKey(key string) {
	if u.refKeys == nil {
		u.refKeys = map[string]bool{}
	}
	if u.refKeys[key] {
		return
	}
	u.refKeys[key] = true
	if u.declared["h:H0!"+key] {
		u.closureAxiom(key)
	}
}

func (u *Unit) closureAxiom(key string) {
	if u.alloc0.S == "" || u.declared["closure:"+key] {
		return
	}
	u.declared["closure:"+key] = true
	q := quoteSym("H0!" + key)
	u.emitFact(T{fmt.Sprintf("(forall ((r!c Int)) (! (<= (root (select %s r!c)) %s) :pattern ((select %s r!c))))", q, u.alloc0.S, q), SBool})
}

func (u *Unit) newEpoch(parents []epochParent) int {
	u.nepoch++
	if u.epochParents == nil {
		u.epochParents = map[int][]epochParent{}
	}
	u.epochParents[u.nepoch] = parents
	return u.nepoch
}

func (u *Unit) heapGet(st *State, key string, sort Sort) T {
	if t, ok := st.heap[key]; ok {
		if s, ok := u.heapSort[key]; !ok {
			u.heapSort[key] = sort
		} else if s != sort {
			panic(fmt.Sprintf("heap key %s used with sorts %s and %s", key, s, sort))
		}
		return t
	}
	if strings.HasPrefix(key, "G:") && u.immutableGlobal[key] {
		return u.epochInit(key, sort, 0)
	}
	return u.epochInit(key, sort, st.epoch)
}

func (u *Unit) heapSet(st *State, key string, t T) {
	if _, ok := u.heapSort[key]; !ok {
		u.heapSort[key] = t.Sort
	}
	u.nfresh++
	name := quoteSym(fmt.Sprintf("H%d!%s", u.nfresh, key))
	u.emitDecl(fmt.Sprintf("(define-fun %s () %s %s)", name, t.Sort, t.S))
	if u.defDeps == nil {
		u.defDeps = map[string]termDeps{}
	}
	d := u.depsOf(t.S)
	d.keys[key] = true
	u.defDeps[name] = d
	st.heap[key] = T{name, t.Sort}
}

func (u *Unit) heapHavoc(st *State, key string, sort Sort) T {
	if _, ok := u.heapSort[key]; !ok {
		u.heapSort[key] = sort
	}
	t := u.fresh("Hh!"+key, sort)
	st.heap[key] = t
	return t
}

// emb returns the reference of the object embedded in field f of the struct
// object at ref.
func (u *Unit) emb(structKey, field string, ref T) T {
	name := "emb!" + structKey + "." + field
	q := u.declareFun(name, []Sort{SInt}, SInt)
	if !u.embFuncs[name] {
		u.embFuncs[name] = true
		inv := u.declareFun("inv!"+name, []Sort{SInt}, SInt)
		kind := u.declareFun("embkind", []Sort{SInt}, SInt)
		tag := len(u.embFuncs)
		if u.embTags == nil {
			u.embTags = map[string]int{}
		}
		u.embTags[name] = tag
		u.emitDecl(fmt.Sprintf("(assert (forall ((p Int)) (! (and (< (%s p) 0) (= (%s (%s p)) p) (= (%s (%s p)) %d) (= (root (%s p)) (root p))) :pattern ((%s p)))))", q, inv, q, kind, q, tag, q, q))
	}
	return app(SInt, q, ref)
}

func (u *Unit) newRef(st *State, hint string) T {
	r := u.define("new!"+hint, app(SInt, "+", st.alloc, intLit(1)))
	if u.refDefs == nil {
		u.refDefs = map[string]string{}
	}
	if r.S != "(+ "+st.alloc.S+" 1)" {
		u.refDefs[r.S] = "(+ " + st.alloc.S + " 1)" // a named reference: remember what it stands for
	}
	if r.S == st.alloc.S {
		panic("define did not rename")
	}
	st.alloc = r
	return r
}

// datatype for struct-typed map keys
func (u *Unit) keySort(t types.Type) Sort {
	if s, ok := scalarSort(t); ok {
		return s
	}
	st := structOf(t)
	if st == nil {
		panic(unsupported("map key type " + typeKey(t)))
	}
	name := "DT!" + typeKey(t)
	q := quoteSym(name)
	if !u.dtypes[name] {
		u.dtypes[name] = true
		var fs []string
		for i := 0; i < st.NumFields(); i++ {
			fs2, ok := scalarSort(st.Field(i).Type())
			if !ok {
				panic(unsupported("map key struct with non-scalar field"))
			}
			fs = append(fs, fmt.Sprintf("(%s %s)", quoteSym(name+"."+st.Field(i).Name()), fs2))
		}
		u.emitDecl(fmt.Sprintf("(declare-datatypes ((%s 0)) (((%s %s))))", q, quoteSym("mk!"+name), strings.Join(fs, " ")))
	}
	return q
}

// keyTerm converts a value to the term used as a map key.
func (u *Unit) keyTerm(v *V) T {
	if _, ok := scalarSort(v.Typ); ok {
		return v.T
	}
	s := u.keySort(v.Typ)
	name := "DT!" + typeKey(v.Typ)
	var args []T
	for _, f := range v.F {
		args = append(args, f.T)
	}
	return app(s, quoteSym("mk!"+name), args...)
}

// keyVal converts a key term back into a value of type t.
func (u *Unit) keyVal(t types.Type, k T) *V {
	if _, ok := scalarSort(t); ok {
		return &V{Typ: t, T: k}
	}
	st := structOf(t)
	name := "DT!" + typeKey(t)
	u.keySort(t)
	v := &V{Typ: t, F: make([]*V, st.NumFields())}
	for i := 0; i < st.NumFields(); i++ {
		fs, _ := scalarSort(st.Field(i).Type())
		v.F[i] = &V{Typ: st.Field(i).Type(), T: app(fs, quoteSym(name+"."+st.Field(i).Name()), k)}
	}
	return v
}

// ---------------------------------------------------------------------------
// obligations

func (u *Unit) oblige(st *State, kind, anchor string, goal T, human string) *Oblig {
	if u.dry > 0 {
		return nil
	}
	if u.opts.AssertsOnly && kind != "assert" && kind != "assert-noassume" {
		u.assume(st, goal)
		return nil
	}
	if u.opts.FrameOnly && kind != "frame" {
		u.assume(st, goal)
		return nil
	}
	if u.opts.AssumePre && kind == "pre" {
		u.assume(st, goal)
		u.note("callee preconditions in " + u.name + " are assumed here (they are obligations of the plans that own them)")
		return nil
	}
	if u.opts.LocksOnly {
		// lock-discipline run: only guard obligations, lock preconditions and lock postconditions are
		// obligations; everything else belongs to the other plans
		isLock := kind == "guard" || strings.Contains(anchor, "locks-")
		if !isLock {
			// neither checked nor assumed: a goal of another plan that does not hold on some path must
			// not prune that path here
			return nil
		}
	}
	if kind == "loopframe" && u.opts.SkipLoopFrame {
		return nil
	}
	if (kind == "inv-init" || kind == "inv-step" || kind == "assert" || kind == "assert-noassume") && u.opts.assumedLabel(anchor) {
		// proved in another unit of the plan (UnitOpts.AssumeGroups)
		if kind == "assert" {
			u.assume(st, goal)
		}
		u.AssumedLabels[anchor[strings.LastIndex(anchor, "/")+1:]] = true
		return nil
	}
	noAssume := false
	if kind == "assert-noassume" {
		kind = "assert"
		noAssume = true
	}
	base := fmt.Sprintf("%s/%s/%s", u.name, kind, anchor)
	n := u.oblNames[base]
	u.oblNames[base] = n + 1
	name := base
	if kind == "nopanic" || n > 0 {
		name = fmt.Sprintf("%s#%d", base, n)
	}
	ob := &Oblig{Name: name, Kind: kind, Func: u.name, Goal: human}
	ob.ModelVars = append(ob.ModelVars, u.modelVars...)
	if goal.S == "true" || st.reach.S == "false" {
		// trivially discharged; still counted, with a trivial query
		ob.Query = "(assert false)"
	} else {
		ob.Query = fmt.Sprintf("(assert %s)\n(assert %s)", st.reach.S, not(goal).S)
		u.need(ob.Query)
	}
	ob.Index = len(u.items)
	u.items = append(u.items, Item{Kind: "oblig", Ob: ob})
	u.obls = append(u.obls, ob)
	// after checking, continue under the assumption that it holds (execution
	// only continues past a panic site if it did not panic; a precondition
	// that was checked holds for the callee's ensures)
	if (kind == "nopanic" || kind == "pre" || kind == "assert") && !noAssume {
		u.assume(st, goal)
	}
	return ob
}

// coverCheck records a reachability check: reach must be satisfiable.
func (u *Unit) coverCheck(st *State, anchor string) {
	if !u.cover || u.dry > 0 {
		return
	}
	base := fmt.Sprintf("%s/cover/%s", u.name, anchor)
	n := u.oblNames[base]
	u.oblNames[base] = n + 1
	ob := &Oblig{Name: fmt.Sprintf("%s#%d", base, n), Kind: "cover", Func: u.name, Cover: true, Goal: "reachable"}
	ob.Query = fmt.Sprintf("(assert %s)", st.reach.S)
	ob.Index = len(u.items)
	u.items = append(u.items, Item{Kind: "oblig", Ob: ob})
	u.obls = append(u.obls, ob)
}

// coverCond: like coverCheck, but for a condition that must be satisfiable at this point (the
// antecedent of a guarded assertion: an anchor that lands on the wrong path would otherwise make the
// assertion hold vacuously).
func (u *Unit) coverCond(st *State, anchor string, cond T) {
	if !u.cover || u.dry > 0 {
		return
	}
	base := fmt.Sprintf("%s/cover/%s", u.name, anchor)
	n := u.oblNames[base]
	u.oblNames[base] = n + 1
	ob := &Oblig{Name: fmt.Sprintf("%s#%d", base, n), Kind: "cover", Func: u.name, Cover: true, Goal: "antecedent satisfiable"}
	ob.Query = fmt.Sprintf("(assert %s)\n(assert %s)", st.reach.S, cond.S)
	ob.Index = len(u.items)
	u.items = append(u.items, Item{Kind: "oblig", Ob: ob})
	u.obls = append(u.obls, ob)
}

// Script renders the whole unit as one incremental script; cover selects
// the cover checks instead of the proof obligations.
func (u *Unit) Script(cover bool) string {
	var b strings.Builder
	for _, it := range u.items {
		switch it.Kind {
		case "decl", "fact":
			b.WriteString(it.Text)
			b.WriteString("\n")
		case "oblig":
			if it.Ob.Cover != cover {
				continue
			}
			b.WriteString("(push 1)\n")
			b.WriteString(it.Ob.Query)
			b.WriteString("\n(check-sat)\n(pop 1)\n")
		}
	}
	return b.String()
}

// ScriptFor renders a standalone script for one obligation (facts before it).
func (u *Unit) ScriptFor(ob *Oblig, withModel bool) string {
	var b strings.Builder
	for i, it := range u.items {
		if i >= ob.Index {
			break
		}
		if it.Kind == "oblig" {
			continue
		}
		b.WriteString(it.Text)
		b.WriteString("\n")
	}
	b.WriteString(ob.Query)
	b.WriteString("\n(check-sat)\n")
	if withModel {
		if len(ob.ModelVars) > 0 {
			b.WriteString("(get-value (" + strings.Join(ob.ModelVars, " ") + "))\n")
		} else {
			b.WriteString("(get-model)\n")
		}
	}
	return b.String()
}

func (u *Unit) Obligations() []*Oblig          { return u.obls }
func (u *Unit) Assumptions() map[string]bool   { return u.assumptions }
func (u *Unit) Name() string                   { return u.name }
func (ob *Oblig) OK() bool                     { return ob.ok() }

// constArr is the array of sort srt that maps every index to v. For values
// that are not SMT literals (the empty string constant) cvc5 rejects
// "as const", so an axiomatised constant is used instead.
func (u *Unit) constArr(srt Sort, v T) T {
	if v.Sort != SStr {
		return T{fmt.Sprintf("((as const %s) %s)", srt, v.S), srt}
	}
	name := quoteSym("constarr!" + srt + "!" + v.S)
	if !u.declared["constarr:"+name] {
		u.declared["constarr:"+name] = true
		u.emitDecl(fmt.Sprintf("(declare-const %s %s)", name, srt))
		u.emitDecl(fmt.Sprintf("(assert (forall ((i!q %s)) (! (= (select %s i!q) %s) :pattern ((select %s i!q)))))", arrIdxSort(srt), name, v.S, name))
	}
	return T{name, srt}
}

func (u *Unit) addModelVar(term, human string) {
	if u.ModelNames == nil {
		u.ModelNames = map[string]string{}
	}
	if _, ok := u.ModelNames[term]; ok {
		return
	}
	u.ModelNames[term] = human
	u.modelVars = append(u.modelVars, term)
}

// ParseModelValues parses the answer to (get-value (...)) into term -> value text.
func ParseModelValues(raw string) map[string]string {
	out := map[string]string{}
	i := strings.Index(raw, "((")
	if i < 0 {
		return out
	}
	s := raw[i+1:]
	// sequence of (term value) pairs
	for {
		s = strings.TrimLeft(s, " \n\t")
		if !strings.HasPrefix(s, "(") {
			break
		}
		// find matching paren
		depth, j := 0, 0
		inBar := false
		for j = 0; j < len(s); j++ {
			c := s[j]
			if c == '|' {
				inBar = !inBar
			}
			if inBar {
				continue
			}
			if c == '(' {
				depth++
			} else if c == ')' {
				depth--
				if depth == 0 {
					break
				}
			}
		}
		if j >= len(s) {
			break
		}
		pair := s[1:j]
		s = s[j+1:]
		// split term and value: term is a symbol (possibly |quoted|) or parenthesised
		pair = strings.TrimSpace(pair)
		var term, val string
		if strings.HasPrefix(pair, "|") {
			k := strings.Index(pair[1:], "|")
			term, val = pair[:k+2], strings.TrimSpace(pair[k+2:])
		} else if strings.HasPrefix(pair, "(") {
			d := 0
			for k := 0; k < len(pair); k++ {
				if pair[k] == '(' {
					d++
				} else if pair[k] == ')' {
					d--
					if d == 0 {
						term, val = pair[:k+1], strings.TrimSpace(pair[k+1:])
						break
					}
				}
			}
		} else {
			k := strings.IndexAny(pair, " \n\t")
			if k < 0 {
				continue
			}
			term, val = pair[:k], strings.TrimSpace(pair[k:])
		}
		out[term] = val
	}
	return out
}

// IntValue converts an SMT integer value ("5", "(- 5)") to decimal text.
func IntValue(v string) (string, bool) {
	v = strings.TrimSpace(v)
	if strings.HasPrefix(v, "(-") && strings.HasSuffix(v, ")") {
		inner := strings.TrimSpace(v[2 : len(v)-1])
		for _, c := range inner {
			if c < '0' || c > '9' {
				return "", false
			}
		}
		return "-" + inner, true
	}
	if v == "" {
		return "", false
	}
	for _, c := range v {
		if c < '0' || c > '9' {
			return "", false
		}
	}
	return v, true
}

func (u *Unit) logWrite(key string, sort Sort) {
	if u.writeLog != nil {
		*u.writeLog = append(*u.writeLog, writeRec{key: key, base: intLit(0), sort: sort})
	}
}

// sidx is the position off+i in a slice's backing array. When the offset is
// not the literal 0 it is wrapped in a function symbol with a defining
// axiom, so that quantifier instantiation can match on it syntactically (the
// solvers normalise nested sums, which hides off+i from E-matching).
func (u *Unit) sidx(off, i T) T {
	if off.S == "0" && !u.sidx0 {
		return i
	}
	if !u.declared["sidx"] {
		u.declared["sidx"] = true
		u.emitDecl("(declare-fun sidx (Int Int) Int)")
		u.emitDecl("(assert (forall ((o Int) (k Int)) (! (= (sidx o k) (+ o k)) :pattern ((sidx o k)))))")
	}
	return app(SInt, "sidx", off, i)
}

// DeadOK reports whether the contract of the unit's function declares the
// given cover point as genuinely unreachable code (opt dead = "return#3 ...").
func (u *Unit) DeadOK(obName string) bool {
	ct := u.eng.Specs.Contracts[u.name]
	if ct == nil {
		return false
	}
	for _, d := range strings.Fields(ct.Opts["dead"]) {
		if strings.HasSuffix(obName, "/cover/"+d) {
			u.note("declared dead code in " + u.name + ": " + d)
			return true
		}
	}
	return false
}

// embTag returns the kind tag of the embedding of field in structKey objects.
func (u *Unit) embTag(structKey, field string) int {
	u.emb(structKey, field, intLit(0))
	return u.embTags["emb!"+structKey+"."+field]
}
