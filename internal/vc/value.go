package vc

import (
	"fmt"
	"go/types"
	"strings"
)

// V is a symbolic Go value.
//
//	scalars (bool, ints, string, float, time.Time, pointers to whole objects,
//	maps, chans, funcs, interfaces)            : T
//	structs, tuples                            : F
//	slices                                     : Sl
//	pointers to a scalar field / element       : LV (T unused)
//	closures                                   : Fn
type V struct {
	Typ types.Type
	T   T
	F   []*V
	Sl  *SliceParts
	LV  *LVal
	Fn  *Closure
}

type SliceParts struct {
	Arr, Off, Len, Cap T
}

// LVal is an address that is not an object reference.
type LVal struct {
	Kind string // "field" | "elem" | "cell"
	Base T      // struct ref (field), array ref (elem), cell ref (cell)
	Idx  T      // elem index
	Key  string // heap key (without leaf suffix)
	Typ  types.Type
}

type Closure struct {
	Fn   interface{} // *ssa.Function
	Bind []*V
}

func typeKey(t types.Type) string {
	return types.TypeString(t, func(p *types.Package) string { return p.Name() })
}

func isTime(t types.Type) bool {
	n, ok := t.(*types.Named)
	if !ok {
		return false
	}
	o := n.Obj()
	return o.Pkg() != nil && o.Pkg().Path() == "time" && o.Name() == "Time"
}

// scalarSort returns the SMT sort of a Go type that is represented by one term.
func scalarSort(t types.Type) (Sort, bool) {
	if isTime(t) {
		return SInt, true
	}
	switch u := t.Underlying().(type) {
	case *types.Basic:
		switch {
		case u.Info()&types.IsBoolean != 0:
			return SBool, true
		case u.Info()&types.IsInteger != 0:
			return SInt, true
		case u.Info()&types.IsString != 0:
			return SStr, true
		case u.Info()&types.IsFloat != 0:
			return SReal, true
		case u.Kind() == types.UnsafePointer:
			return SInt, true
		case u.Kind() == types.UntypedNil:
			return SInt, true
		}
	case *types.Pointer, *types.Map, *types.Chan, *types.Signature, *types.Interface:
		return SInt, true
	case *types.Array:
		if es, ok := scalarSort(u.Elem()); ok {
			return arrSort(SInt, es), true
		}
		// arrays of non-scalars (e.g. the zero-length [0]sync.Mutex markers in generated
		// protobuf code) are opaque
		return SInt, true
	case *types.TypeParam:
		return SInt, true
	}
	return "", false
}

func isUnsigned(t types.Type) bool {
	b, ok := t.Underlying().(*types.Basic)
	return ok && b.Info()&types.IsUnsigned != 0
}

func isInteger(t types.Type) bool {
	if isTime(t) {
		return false
	}
	b, ok := t.Underlying().(*types.Basic)
	return ok && b.Info()&types.IsInteger != 0
}

func intBits(t types.Type) int {
	b, ok := t.Underlying().(*types.Basic)
	if !ok {
		return 64
	}
	switch b.Kind() {
	case types.Int8, types.Uint8:
		return 8
	case types.Int16, types.Uint16:
		return 16
	case types.Int32, types.Uint32:
		return 32
	}
	return 64
}

func pow2(n int) string {
	switch n {
	case 7:
		return "128"
	case 8:
		return "256"
	case 15:
		return "32768"
	case 16:
		return "65536"
	case 31:
		return "2147483648"
	case 32:
		return "4294967296"
	case 63:
		return "9223372036854775808"
	case 64:
		return "18446744073709551616"
	}
	panic("pow2")
}

// intRange returns SMT terms for the inclusive bounds of an integer type.
func intRange(t types.Type) (lo, hi T) {
	bits := intBits(t)
	if isUnsigned(t) {
		return intLit(0), T{"(- " + pow2(bits) + " 1)", SInt}
	}
	return T{"(- " + pow2(bits-1) + ")", SInt}, T{"(- " + pow2(bits-1) + " 1)", SInt}
}

func structOf(t types.Type) *types.Struct {
	if isTime(t) {
		return nil
	}
	s, _ := t.Underlying().(*types.Struct)
	return s
}

// Leaf describes one scalar component of a flattened type.
type Leaf struct {
	Path string // e.g. "" or ".Start" or "#len"
	Sort Sort
	Typ  types.Type // Go type of the leaf (nil for slice parts other than arr)
}

// flatten lists the scalar leaves of t in a fixed order. Struct fields are
// flattened recursively; slices contribute #arr #off #len #cap.
func flatten(t types.Type) []Leaf {
	if s, ok := scalarSort(t); ok {
		return []Leaf{{"", s, t}}
	}
	switch u := t.Underlying().(type) {
	case *types.Struct:
		var ls []Leaf
		for i := 0; i < u.NumFields(); i++ {
			for _, l := range flatten(u.Field(i).Type()) {
				ls = append(ls, Leaf{"." + u.Field(i).Name() + l.Path, l.Sort, l.Typ})
			}
		}
		return ls
	case *types.Slice:
		return []Leaf{{"#arr", SInt, nil}, {"#off", SInt, nil}, {"#len", SInt, nil}, {"#cap", SInt, nil}}
	case *types.Tuple:
		var ls []Leaf
		for i := 0; i < u.Len(); i++ {
			for _, l := range flatten(u.At(i).Type()) {
				ls = append(ls, Leaf{fmt.Sprintf(".%d%s", i, l.Path), l.Sort, l.Typ})
			}
		}
		return ls
	case *types.Array:
		// array of non-scalars: not supported as a register value
	}
	panic(unsupported("flatten of type " + typeKey(t)))
}

// leaves returns the terms of v in flatten order.
func (v *V) leaves() []T {
	if v.LV != nil {
		panic(unsupported("interior pointer used as a value (escapes)"))
	}
	if v.Sl != nil {
		return []T{v.Sl.Arr, v.Sl.Off, v.Sl.Len, v.Sl.Cap}
	}
	if v.F != nil || isStructLike(v.Typ) {
		var ts []T
		for _, f := range v.F {
			ts = append(ts, f.leaves()...)
		}
		return ts
	}
	return []T{v.T}
}

func isStructLike(t types.Type) bool {
	if t == nil {
		return false
	}
	if isTime(t) {
		return false
	}
	switch t.Underlying().(type) {
	case *types.Struct, *types.Tuple:
		return true
	}
	return false
}

// fromLeaves rebuilds a value of type t from leaf terms (consumes from *ts).
func fromLeaves(t types.Type, ts *[]T) *V {
	if _, ok := scalarSort(t); ok {
		x := (*ts)[0]
		*ts = (*ts)[1:]
		return &V{Typ: t, T: x}
	}
	switch u := t.Underlying().(type) {
	case *types.Struct:
		v := &V{Typ: t, F: make([]*V, u.NumFields())}
		for i := 0; i < u.NumFields(); i++ {
			v.F[i] = fromLeaves(u.Field(i).Type(), ts)
		}
		return v
	case *types.Tuple:
		v := &V{Typ: t, F: make([]*V, u.Len())}
		for i := 0; i < u.Len(); i++ {
			v.F[i] = fromLeaves(u.At(i).Type(), ts)
		}
		return v
	case *types.Slice:
		x := *ts
		*ts = x[4:]
		return &V{Typ: t, Sl: &SliceParts{x[0], x[1], x[2], x[3]}}
	}
	panic(unsupported("fromLeaves of type " + typeKey(t)))
}

type unsupportedErr string

func unsupported(s string) unsupportedErr { return unsupportedErr(s) }
func (u unsupportedErr) Error() string    { return "unsupported: " + string(u) }

func sanitize(s string) string {
	r := strings.NewReplacer(" ", "_", "|", "_", "\\", "_", "\"", "_", ";", "_", "(", "_", ")", "_")
	return r.Replace(s)
}

// isOpaqueArr: arrays whose elements are not scalars are carried as one opaque term.
func isOpaqueArr(t types.Type) bool {
	a, ok := t.Underlying().(*types.Array)
	if !ok {
		return false
	}
	_, sc := scalarSort(a.Elem())
	return !sc
}
