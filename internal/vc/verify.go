package vc

import (
	"os"
	"fmt"
	"go/types"
	"runtime/debug"
	"sort"
	"strings"

	"golang.org/x/tools/go/ssa"
)

type intrinsicFn func(f *Frame, instr ssa.Instruction, args []*V, st *State) ([]*V, bool)

var intrinsics = map[string]intrinsicFn{
	"sort.Slice":   sortIntrinsic,
	"sort.Strings": sortIntrinsic,
}

// sortIntrinsic: sorting permutes the elements of the slice in place. The new contents are the old
// ones under a bijection of the index range (the order itself is not modelled).
func sortIntrinsic(f *Frame, instr ssa.Instruction, args []*V, st *State) ([]*V, bool) {
	u := f.u
	sv := args[0]
	if sv.Sl == nil {
		sv = u.boxedSlices[args[0].T.S]
	}
	if sv == nil || sv.Sl == nil {
		return nil, false
	}
	et := sv.Typ.Underlying().(*types.Slice).Elem()
	u.nfresh++
	n := u.nfresh
	pi := u.declareFun(fmt.Sprintf("perm!%d", n), []Sort{SInt}, SInt)
	inv := u.declareFun(fmt.Sprintf("perminv!%d", n), []Sort{SInt}, SInt)
	ln := sv.Sl.Len
	u.assume(st, T{fmt.Sprintf("(forall ((j!q Int)) (! (=> (and (<= 0 j!q) (< j!q %s)) (and (<= 0 (%s j!q)) (< (%s j!q) %s) (= (%s (%s j!q)) j!q))) :pattern ((%s j!q))))", ln.S, pi, pi, ln.S, inv, pi, pi), SBool})
	u.assume(st, T{fmt.Sprintf("(forall ((k!q Int)) (! (=> (and (<= 0 k!q) (< k!q %s)) (and (<= 0 (%s k!q)) (< (%s k!q) %s) (= (%s (%s k!q)) k!q))) :pattern ((%s k!q))))", ln.S, inv, inv, ln.S, pi, inv, inv), SBool})
	for _, l := range flatten(et) {
		key := "E:" + typeKey(et) + l.Path
		inner := arrSort(SInt, l.Sort)
		h := u.heapGet(st, key, arrSort(SInt, inner))
		old := sel(h, sv.Sl.Arr)
		cont := u.fresh("sorted", inner)
		at := func(base T, idx string) string {
			return fmt.Sprintf("(select %s %s)", base.S, u.sidx(sv.Sl.Off, T{idx, SInt}).S)
		}
		u.assume(st, T{fmt.Sprintf("(forall ((j!q Int)) (! (=> (and (<= 0 j!q) (< j!q %s)) (= %s %s)) :pattern (%s)))",
			ln.S, at(cont, "j!q"), at(old, fmt.Sprintf("(%s j!q)", pi)), at(cont, "j!q")), SBool})
		u.assume(st, T{fmt.Sprintf("(forall ((j!q Int)) (! (=> (not (and (<= %s j!q) (< j!q (+ %s %s)))) (= (select %s j!q) (select %s j!q))) :pattern ((select %s j!q))))",
			sv.Sl.Off.S, sv.Sl.Off.S, ln.S, cont.S, old.S, cont.S), SBool})
		arr := sv.Sl.Arr
		u.write(st, key, arr, func(h T) T { return sto(h, arr, cont) }, arrSort(SInt, inner))
	}
	u.note("sorting permutes the slice in place (bijection of indexes); the comparison function is assumed pure")
	return nil, true
}
var specIntrinsics = map[string]func(c *SpecCtx, args []*V) *V{}

type DynHook func(f *Frame, instr ssa.Instruction, c *ssa.CallCommon, fv *V, args []*V, st *State) ([]*V, bool)

// UnitOpts selects which obligations are generated for a function.
type UnitOpts struct {
	NoPanic   bool     // generate nopanic obligations
	Cover     bool     // generate cover (vacuity) checks
	Post      bool     // check ensures clauses
	PostOnly  []string // if non-empty: only ensures with these labels
	Frame     bool     // check the modifies clause
	Asserts   bool
	// AssertsOnly: only the assert@ clauses are obligations; callee preconditions, loop
	// invariants and panic sites are assumed (a partial contract for functions that are
	// mostly outside the subset: goroutines, channels, closures stored in the heap).
	AssertsOnly bool
	// NoCover: no reachability (vacuity) checks for this unit (functions with genuinely dead error
	// returns that are not under a contract of their own).
	NoCover bool
	// LocksOnly (C20): only guard obligations and clauses labelled locks-* are obligations.
	LocksOnly bool
	// Groups: if non-empty, only the labelled clauses (loop invariants, loopinv, ensures, assert@)
	// whose label is g or starts with g+"-" for some g in Groups are used; unlabelled clauses,
	// requires and assume@ clauses are always kept. Independent groups of invariants are proved
	// inductive separately (a conjunction of inductive invariants is inductive), which keeps each
	// solver query small.
	// A group written g$ matches the label g only.
	Groups []string
	// AssumeGroups: labelled clauses of these groups are kept as hypotheses (loop invariants assumed at
	// the loop head, assert@ clauses assumed at their anchor) but generate no obligation in this unit:
	// they are proved in another unit of the same plan (the plan checks that). Sound: a conjunction of
	// invariants is inductive if each conjunct is preserved under the assumption of all of them.
	AssumeGroups []string
	// FrameOnly: only the frame obligations (modifies clause, excepted types, ghost fields) are obligations; everything
	// else is assumed as with AssertsOnly (the other clauses of the function are proved by the plan that owns them)
	FrameOnly bool
	// AssumePre: preconditions of callees are assumed (and listed), not proved: they belong to another plan
	AssumePre bool
	// SkipLoopFrame: no loopframe obligations (they depend on the code alone, not on the clause groups;
	// when a function is proved in many units one of them generates them)
	SkipLoopFrame bool
}

func groupMatch(groups []string, label string) bool {
	for _, g := range groups {
		if strings.HasSuffix(g, "$") {
			if label == g[:len(g)-1] {
				return true
			}
			continue
		}
		if label == g || strings.HasPrefix(label, g+"-") {
			return true
		}
	}
	return false
}

func (o UnitOpts) keep(label string) bool {
	if len(o.Groups) == 0 || label == "" {
		return true
	}
	return groupMatch(o.Groups, label) || groupMatch(o.AssumeGroups, label)
}

// Proves: a clause with this label is an obligation of a unit run with these options (not filtered out by
// Groups, not merely assumed through AssumeGroups).
func (o UnitOpts) Proves(label string) bool {
	if len(o.Groups) == 0 || label == "" {
		return true
	}
	return groupMatch(o.Groups, label)
}

// assumedLabel: the obligation anchored at anchor (.../<label>) belongs to an assumed group.
func (o UnitOpts) assumedLabel(anchor string) bool {
	if len(o.AssumeGroups) == 0 {
		return false
	}
	label := anchor[strings.LastIndex(anchor, "/")+1:]
	if label == "" {
		return false
	}
	return groupMatch(o.AssumeGroups, label) && !groupMatch(o.Groups, label)
}

// filterContract returns a copy of ct restricted to the clause groups of opts.
func filterContract(ct *Contract, o UnitOpts) *Contract {
	if len(o.Groups) == 0 {
		return ct
	}
	nc := *ct
	// a requires clause labelled only-<group>-... is a hypothesis needed by that group alone (kept out of
	// the other groups' queries, where it would only be ballast)
	nc.Requires = nil
	for _, c := range ct.Requires {
		if strings.HasPrefix(c.Label, "only-") {
			rest := c.Label[len("only-"):]
			keep := false
			for _, g := range o.Groups {
				g = strings.TrimSuffix(g, "$")
				// only-chanw-shape serves the group chanw and every sub-group chanw-...
				first := rest
				if i := strings.Index(rest, "-"); i >= 0 {
					first = rest[:i]
				}
				if rest == g || strings.HasPrefix(rest, g+"-") || g == first || strings.HasPrefix(g, first+"-") {
					keep = true
				}
			}
			if !keep {
				continue
			}
		}
		nc.Requires = append(nc.Requires, c)
	}
	nc.Ensures = nil
	for _, c := range ct.Ensures {
		if o.keep(c.Label) {
			nc.Ensures = append(nc.Ensures, c)
		}
	}
	nc.LoopInv = nil
	for _, c := range ct.LoopInv {
		if o.keep(c.Label) {
			nc.LoopInv = append(nc.LoopInv, c)
		}
	}
	nc.Asserts = nil
	for _, a := range ct.Asserts {
		if a.Assume || o.keep(a.Label) {
			nc.Asserts = append(nc.Asserts, a)
		}
	}
	nc.Loops = map[string]*LoopSpec{}
	for k, ls := range ct.Loops {
		nl := *ls
		nl.Invariants = nil
		for _, c := range ls.Invariants {
			if o.keep(c.Label) {
				nl.Invariants = append(nl.Invariants, c)
			}
		}
		nc.Loops[k] = &nl
	}
	return &nc
}

// VerifyFunc symbolically executes the function and returns the unit with
// all obligations generated (not yet discharged).
func (e *Engine) VerifyFunc(name string, opts UnitOpts) (u *Unit, err error) {
	fn := e.Funcs[name]
	if fn == nil {
		return nil, fmt.Errorf("function %s not found", name)
	}
	ct := e.Specs.Contracts[name]
	if ct == nil {
		ct = &Contract{Func: name, Loops: map[string]*LoopSpec{}, Opts: map[string]string{}}
	}
	ct = filterContract(ct, opts)
	u = newUnit(e, name)
	u.exact = ct.Arith == "exact"
	u.sidx0 = ct.Opts["sidx0"] == "true"
	// two aids for long functions with many heap versions, off unless the contract asks for them (they cost
	// time in small functions and can feed a matching loop between "every element has a key" and "every
	// key has an element" clauses): a second trigger on loop frame axioms, over the heap before the loop
	// (opt backpatterns), and heap reads that depend on no bound variable named outside the binder of a
	// quantified clause (opt groundhints)
	u.backpat = ct.Opts["backpatterns"] == "true" && os.Getenv("GOVC_NO_BACKPATTERN") == ""
	u.ghints = ct.Opts["groundhints"] == "true" && os.Getenv("GOVC_NO_GROUNDHINTS") == ""
	u.nopanic = opts.NoPanic
	u.cover = opts.Cover
	u.opts = opts
	defer func() {
		if r := recover(); r != nil {
			if ue, ok := r.(unsupportedErr); ok {
				err = fmt.Errorf("%s: %s", name, ue.Error())
				return
			}
			err = fmt.Errorf("%s: internal error: %v\n%s", name, r, debug.Stack())
		}
	}()
	st := &State{reach: tTrue, heap: map[string]T{}}
	st.alloc = u.fresh("alloc0", SInt)
	u.alloc0 = st.alloc
	u.emitFact(app(SBool, ">=", st.alloc, intLit(1000)))
	f := &Frame{u: u, fn: fn, vals: map[ssa.Value]*V{}, top: true, contract: ct, params: map[string]*V{}, lets: map[string]*V{},
		iters: map[ssa.Value]*iterInfo{}, callOrd: map[string]int{}, litOrd: map[string]int{}, usedAnchors: map[string]bool{}}
	for _, p := range fn.Params {
		v := u.freshVal(st, p.Type(), "p!"+p.Name())
		f.vals[p] = v
		f.params[p.Name()] = v
		if allScalar([]*V{v}) {
			ls := flatten(p.Type())
			for i, t := range v.leaves() {
				u.addModelVar(t.S, p.Name()+ls[i].Path)
			}
		}
	}
	for _, fv := range fn.FreeVars {
		v := u.freshVal(st, fv.Type(), "fv!"+fv.Name())
		f.vals[fv] = v
	}
	f.entry = st.clone()
	f.indexVars()
	ctx := f.specCtxAt(st, fn.Blocks[0], 0)
	isInit := fn.Name() == "init" && fn.Synthetic != ""
	f.isInit = isInit
	if pk := pkgOf(fn); pk != nil && !isInit {
		for _, gi := range e.Specs.GlobalInvs {
			if gi.Pkg != pk.Name() {
				// invariants of other repo packages: evaluated in their own package
				op := e.PkgByName(gi.Pkg)
				if op == nil {
					continue
				}
				octx := *ctx
				octx.pkg = op
				octx.useFrameVars = false
				octx.env = map[string]*V{}
				u.assume(st, octx.evalBool(gi.E))
				u.note("package invariant " + gi.Pkg + "." + gi.Label + " (" + gi.Src + "): proved as post of " + gi.Pkg + ".init")
				continue
			}
			before := len(u.immutableGlobal)
			_ = before
			t := ctx.evalBool(gi.E)
			u.assume(st, t)
			u.note("package invariant " + gi.Label + " (" + gi.Src + "): proved as post of " + gi.Pkg + ".init; the globals it reads are stored to by init only")
		}
	}
	if isInit && fn.Pkg != nil {
		// the Go runtime runs a package initialiser exactly once: its guard is false on entry
		if g, ok := fn.Pkg.Members["init$guard"].(*ssa.Global); ok {
			gv := f.load(st, u.globalPtr(g))
			u.assume(st, not(gv.T))
		}
	}
	if pk := pkgOf(fn); pk != nil && !isInit {
		for k, ax := range e.Specs.Axioms {
			if e.Specs.AxiomPkg[k] != pk.Name() {
				continue
			}
			u.assume(st, ctx.evalBool(ax.E))
			u.note("axiom " + ax.Label + " (" + ax.Src + ")")
		}
	}
	for _, r := range ct.Requires {
		u.assume(st, ctx.evalBool(r.E))
	}
	if e.LockMode {
		// unless the contract says which locks the caller holds (requires locks-held), it holds none
		has := false
		for _, r := range ct.Requires {
			if r.Label == "locks-held" {
				has = true
			}
		}
		if !has {
			w := u.heapGet(st, "F:sync.RWMutex.writerSem", arrSort(SInt, SInt))
			r := u.heapGet(st, "F:sync.RWMutex.readerSem", arrSort(SInt, SInt))
			u.emitFact(T{fmt.Sprintf("(forall ((m!q Int)) (! (and (= (select %s m!q) 0) (= (select %s m!q) 0)) :pattern ((select %s m!q)) :pattern ((select %s m!q))))", w.S, r.S, w.S, r.S), SBool})
			pm := u.heapGet(st, "F:sync.Mutex.sema", arrSort(SInt, SInt))
			u.emitFact(T{fmt.Sprintf("(forall ((m!q Int)) (! (= (select %s m!q) 0) :pattern ((select %s m!q))))", pm.S, pm.S), SBool})
			u.note("lock tracking: " + name + " is entered without holding any mutex")
		}
	}
	for _, l := range ct.Lets {
		f.lets[l.Name] = ctx.eval(l.E)
		ctx.env[l.Name] = f.lets[l.Name]
	}
	u.coverCheck(st, "requires")
	f.run(st)
	for _, a := range ct.Asserts {
		if !f.usedAnchors[a.Anchor] && !strings.HasSuffix(a.Anchor, "#*") && strings.HasPrefix(a.Label, "must-") && !a.Assume {
			// a "must-" clause is also the obligation that its anchor exists: the function has to make that
			// call (e.g. wake all waiting readers); a missing call is a failed obligation, not an engine error
			u.oblige(st, "assert-noassume", a.Anchor+"/"+a.Label, tFalse, "the contract requires the "+a.Anchor+" to occur in "+name+"; it does not")
			continue
		}
		if !f.usedAnchors[a.Anchor] && !strings.HasSuffix(a.Anchor, "#*") {
			return nil, fmt.Errorf("%s: anchor %q of an assert@/assume@ clause was not found", name, a.Anchor)
		}
	}
	return u, nil
}

func (f *Frame) wantPost(label string) bool {
	o := f.u.opts
	if !o.Post {
		return false
	}
	if len(o.PostOnly) == 0 {
		return true
	}
	for _, l := range o.PostOnly {
		if l == label {
			return true
		}
	}
	return false
}

// checkPost is called at every return of the function under contract.
func (f *Frame) checkPost(st *State, vals []*V) {
	u := f.u
	ct := f.contract
	u.coverCheck(st, "return")
	st = f.ghostUpdates(st, vals)
	ctx := f.specCtxAt(st, f.curBlock, f.curIdx)
	bindResults(ctx.env, f.fn.Signature, vals)
	for i, e := range ct.Ensures {
		label := e.Label
		if label == "" {
			label = fmt.Sprintf("%d", i)
		}
		if !f.wantPost(label) {
			continue
		}
		if strings.HasPrefix(label, "ghost-") {
			// the definition of a ghost field's new value (a ghost assignment written as a postcondition): ghost
			// fields are not touched by code, so there is nothing in the body to check it against
			u.note("ghost update " + label + " of " + ct.Func + ": " + e.Src)
			continue
		}
		if strings.HasPrefix(label, "assumed-") {
			// an assumed postcondition (the model of a dependency the body rests on): used at call sites,
			// listed in the evidence, never an obligation
			u.note("assumed postcondition " + label + " of " + ct.Func + ": " + e.Src)
			continue
		}
		u.oblige(st, "post", label, ctx.evalGoal(e.E), "ensures "+e.Src)
	}
	if f.isInit {
		for _, gi := range u.eng.Specs.GlobalInvs {
			if pk := pkgOf(f.fn); pk == nil || gi.Pkg != pk.Name() {
				continue
			}
			u.oblige(st, "post", "globalinv "+gi.Label, ctx.evalBool(gi.E), "package invariant established by init: "+gi.Src)
		}
	}
	if u.opts.Frame && (ct.HasMod || ct.Pure) {
		f.checkFrame(st, ctx)
	}
}

// ghostUpdates: an ensures clause labelled ghost-<field> is the assignment of ghost field <field> at the
// return (ghost fields are not touched by code): the field is havocked at the objects the modifies clause
// lists for it, the clause is assumed, and the other postconditions are checked in the resulting state.
func (f *Frame) ghostUpdates(st *State, vals []*V) *State {
	u := f.u
	ct := f.contract
	var gcl []Clause
	for _, e := range ct.Ensures {
		if strings.HasPrefix(e.Label, "ghost-") {
			gcl = append(gcl, e)
		}
	}
	if len(gcl) == 0 {
		return st
	}
	gst := st.clone()
	ctx0 := f.specCtxAt(st, f.curBlock, f.curIdx)
	items := f.parseFootprint(ct, ctx0, f.entry)
	done := map[string]bool{}
	for _, e := range gcl {
		field := strings.TrimPrefix(e.Label, "ghost-")
		for _, it := range items {
			for _, k := range it.keys {
				if !isGhostKey(k.key) || !strings.HasSuffix(k.key, "."+field) || done[k.key] {
					continue
				}
				done[k.key] = true
				old := u.heapGet(gst, k.key, k.sort)
				nh := u.heapHavoc(gst, k.key, k.sort)
				if it.bases != nil {
					var excl []string
					for _, b := range it.bases {
						excl = append(excl, fmt.Sprintf("(not (= r!q %s))", b.S))
					}
					u.assume(gst, T{fmt.Sprintf("(forall ((r!q Int)) (! (=> (and %s) (= (select %s r!q) (select %s r!q))) :pattern ((select %s r!q))))", strings.Join(excl, " "), nh.S, old.S, nh.S), SBool})
				}
			}
		}
	}
	ctx := f.specCtxAt(gst, f.curBlock, f.curIdx)
	bindResults(ctx.env, f.fn.Signature, vals)
	for _, e := range gcl {
		u.assume(gst, ctx.evalBool(e.E))
	}
	return gst
}

// checkFrame: objects that existed at entry and are not in the modifies
// clause keep their contents.
func (f *Frame) checkFrame(st *State, ctx *SpecCtx) {
	u := f.u
	ct := f.contract
	items := f.parseFootprint(ct, ctx, f.entry)
	byKey := map[string][]fpItem{}
	hasAll := false
	for _, it := range items {
		if it.all {
			hasAll = true
		}
	}
	if hasAll {
		// "*" with exceptions: the excepted types keep the contents of pre-existing objects
		for _, it := range items {
			if !it.except {
				continue
			}
			for _, k := range it.keys {
				init := u.epochInit(k.key, k.sort, 0)
				now := u.heapGet(st, k.key, k.sort)
				if now.S == init.S {
					continue
				}
				goal := T{fmt.Sprintf("(forall ((r!q Int)) (=> (and (<= (root r!q) %s) %s) (= (select %s r!q) (select %s r!q))))", f.entry.alloc.S, u.kindCond(k), now.S, init.S), SBool}
				u.oblige(st, "frame", "excepted "+k.key, goal, "objects of an excepted type that existed at entry are not written: "+k.key)
			}
		}
		// "*" does not include ghost fields: each one that changed has to be listed by name
		listed := map[string][]fpItem{}
		for _, it := range items {
			for _, k := range it.keys {
				if isGhostKey(k.key) && !it.except {
					listed[k.key] = append(listed[k.key], it)
				}
			}
		}
		var gkeys []string
		for k := range st.heap {
			if isGhostKey(k) {
				gkeys = append(gkeys, k)
			}
		}
		sort.Strings(gkeys)
		for _, k := range gkeys {
			srt := u.heapSort[k]
			init := u.epochInit(k, srt, 0)
			now := st.heap[k]
			if now.S == init.S {
				continue
			}
			whole := false
			var excl []string
			for _, it := range listed[k] {
				if it.bases == nil {
					whole = true
				}
				for _, b := range it.bases {
					excl = append(excl, fmt.Sprintf("(not (= r!q %s))", b.S))
				}
			}
			if whole {
				continue
			}
			cnd := fmt.Sprintf("(<= (root r!q) %s)", f.entry.alloc.S)
			if len(excl) > 0 {
				cnd = "(and " + cnd + " " + strings.Join(excl, " ") + ")"
			}
			goal := T{fmt.Sprintf("(forall ((r!q Int)) (=> %s (= (select %s r!q) (select %s r!q))))", cnd, now.S, init.S), SBool}
			u.oblige(st, "frame", k, goal, "ghost state changes only where the modifies clause lists it: "+k)
		}
		return
	}
	for _, it := range items {
		for _, k := range it.keys {
			byKey[k.key] = append(byKey[k.key], it)
		}
	}
	if st.epoch != 0 {
		u.oblige(st, "frame", "calls a function that may modify everything", tFalse, "modifies clause must be * when a callee has modifies *")
		return
	}
	var keys []string
	for k := range st.heap {
		keys = append(keys, k)
	}
	sort.Strings(keys)
	for _, k := range keys {
		if strings.HasPrefix(k, "IT:") {
			continue
		}
		srt := u.heapSort[k]
		init := u.epochInit(k, srt, 0)
		now := st.heap[k]
		if now.S == init.S {
			continue
		}
		if strings.HasPrefix(k, "G:") {
			if _, listed := byKey[k]; !listed {
				u.oblige(st, "frame", k, eq(now, init), "global "+k+" is not modified")
			}
			continue
		}
		whole := false
		var excl []string
		for _, it := range byKey[k] {
			if it.bases == nil {
				whole = true
			}
			for _, b := range it.bases {
				excl = append(excl, fmt.Sprintf("(not (= r!q %s))", b.S))
			}
		}
		if whole {
			continue
		}
		cnd := fmt.Sprintf("(<= (root r!q) %s)", f.entry.alloc.S)
		if len(excl) > 0 {
			cnd = "(and " + cnd + " " + strings.Join(excl, " ") + ")"
		}
		goal := T{fmt.Sprintf("(forall ((r!q Int)) (=> %s (= (select %s r!q) (select %s r!q))))", cnd, now.S, init.S), SBool}
		u.oblige(st, "frame", k, goal, "only the modifies clause is written: "+k)
	}
}

var _ = types.Typ
