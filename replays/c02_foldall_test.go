// Replay for C02 (fixed): a snapshot that folds every stored entry, then more
// input, a second snapshot and a restore. In-package test (package main);
// run with
//
//	cd /repo && go test -vet=off -count=1 -run TestReplayC02 -overlay <json mapping /repo/zz_c02_test.go to this file> .
//
// Before the repair FSM.Snapshot filed the folded state under the index in
// front of the *old* first entry when the fold loop ran to the end, the next
// snapshot looked for the state in front of its own first entry, found none,
// started from an empty server and persisted that; the restore then lost all
// sessions. The second test puts a raft-internal entry (an index that is never
// stored) between the folded prefix and the next input.
package main

import (
	"bytes"
	"flag"
	"path/filepath"
	"strconv"
	"testing"
	"time"

	"github.com/hashicorp/raft"
	"github.com/robustirc/rafthttp"
	"github.com/robustirc/robustirc/internal/ircserver"
	"github.com/robustirc/robustirc/internal/outputstream"
	"github.com/robustirc/robustirc/internal/raftstore"
	"github.com/robustirc/robustirc/internal/robust"
)

func replayC02Snapshot(t *testing.T, fsm *FSM, fss raft.SnapshotStore, index uint64) {
	t.Helper()
	s, err := fsm.Snapshot()
	if err != nil {
		t.Fatalf("fsm.Snapshot(): %v", err)
	}
	sink, err := fss.Create(1, index, 1, raft.Configuration{}, 0, &rafthttp.HTTPTransport{})
	if err != nil {
		t.Fatalf("fss.Create: %v", err)
	}
	if err := s.Persist(sink); err != nil {
		t.Fatalf("Persist: %v", err)
	}
	if err := sink.Close(); err != nil {
		t.Fatalf("sink.Close: %v", err)
	}
	time.Sleep(5 * time.Millisecond) // raft names snapshots by the current time in ms
}

func replayC02(t *testing.T, gap bool) {
	ircServer = ircserver.NewIRCServer("testnetwork", time.Now())
	var err error
	outputStream, err = outputstream.NewOutputStream("")
	if err != nil {
		t.Fatal(err)
	}
	tempdir := t.TempDir()
	flag.Set("raftdir", tempdir)
	logstore, err := raftstore.NewLevelDBStore(filepath.Join(tempdir, "raftlog"), false, false)
	if err != nil {
		t.Fatal(err)
	}
	ircstore, err := raftstore.NewLevelDBStore(filepath.Join(tempdir, "irclog"), false, false)
	if err != nil {
		t.Fatal(err)
	}
	fsm := &FSM{
		store:                logstore,
		ircstore:             ircstore,
		lastSnapshotState:    make(map[uint64][]byte),
		sessionExpirationDur: 10 * time.Minute,
		ReplaceState:         func(*ircserver.IRCServer, *raftstore.LevelDBStore, *outputstream.OutputStream) {},
	}
	// all older than the compaction horizon (timestamp derived from the id)
	old := []*raft.Log{
		{Type: raft.LogCommand, Index: 1, Data: []byte(`{"Id": {"Id": 1}, "Type": 0, "Data": "auth"}`)},
		{Type: raft.LogCommand, Index: 2, Data: []byte(`{"Id": {"Id": 2}, "Session": {"Id": 1}, "Type": 2, "Data": "NICK alice"}`)},
		{Type: raft.LogCommand, Index: 3, Data: []byte(`{"Id": {"Id": 3}, "Session": {"Id": 1}, "Type": 2, "Data": "USER blah 0 * :Alice"}`)},
		{Type: raft.LogCommand, Index: 4, Data: []byte(`{"Id": {"Id": 4}, "Session": {"Id": 1}, "Type": 2, "Data": "JOIN #idle"}`)},
	}
	for _, l := range old {
		fsm.Apply(l)
	}
	fss, err := raft.NewFileSnapshotStore(tempdir, 5, nil)
	if err != nil {
		t.Fatal(err)
	}
	// idle network: the snapshot folds everything that is stored
	replayC02Snapshot(t, fsm, fss, 4)

	next := uint64(5)
	if gap {
		fsm.Apply(&raft.Log{Type: raft.LogNoop, Index: 5})
		next = 6
	}
	now := time.Now().UnixNano()
	fsm.Apply(&raft.Log{Type: raft.LogCommand, Index: next, Data: []byte(`{"Id": {"Id": ` + strconv.FormatUint(next, 10) + `}, "UnixNano": ` + strconv.FormatInt(now, 10) + `, "Session": {"Id": 1}, "Type": 2, "Data": "TOPIC #idle :hello"}`)})

	want, err := ircServer.Marshal(0)
	if err != nil {
		t.Fatal(err)
	}

	replayC02Snapshot(t, fsm, fss, next)

	snapshots, err := fss.List()
	if err != nil || len(snapshots) == 0 {
		t.Fatalf("fss.List(): %v (%d snapshots)", err, len(snapshots))
	}
	_, rc, err := fss.Open(snapshots[0].ID)
	if err != nil {
		t.Fatal(err)
	}
	if err := fsm.Restore(rc); err != nil {
		t.Fatalf("fsm.Restore: %v", err)
	}
	s, err := ircServer.GetSession(robust.Id{Id: 1})
	if err != nil {
		t.Fatalf("session 1 lost after snapshot (everything folded), one more input, snapshot, restore: %v", err)
	}
	if got, want := s.Nick, "alice"; got != want {
		t.Errorf("nick: got %q, want %q", got, want)
	}
	got, err := ircServer.Marshal(0)
	if err != nil {
		t.Fatal(err)
	}
	if !bytes.Equal(got, want) {
		t.Errorf("restored state differs from the state of a node which never snapshotted")
	}
}

func TestReplayC02FoldAll(t *testing.T)        { replayC02(t, false) }
func TestReplayC02FoldAllThenGap(t *testing.T) { replayC02(t, true) }
