package ircserver

import (
	"testing"
	"time"
)

func TestReplayC03WhitelistedOrigins(t *testing.T) {
	i := NewIRCServer("robustirc.net", time.Unix(0, 1481144012969203276))
	i.Config.WhitelistedOrigins = map[string]bool{"https://webchat.example.com": true}
	b, err := i.Marshal(0)
	if err != nil {
		t.Fatal(err)
	}
	j := NewIRCServer("robustirc.net", time.Unix(0, 1481144012969203276))
	if _, err := j.Unmarshal(b); err != nil {
		t.Fatal(err)
	}
	if !j.Config.WhitelistedOrigins["https://webchat.example.com"] {
		t.Fatalf("restored configuration lost WhitelistedOrigins: %v", j.Config.WhitelistedOrigins)
	}
}
