package api

import (
	"context"
	"os"
	"testing"
	"time"

	"github.com/robustirc/robustirc/internal/outputstream"
	"github.com/robustirc/robustirc/internal/robust"
)

// A client has received 20.1 and 20.2 from one node and reconnects with lastseen=20.2 to a node that
// has not applied entry 20 yet (its newest batch is 19). When entry 20 arrives, only 20.3 may be
// delivered; before the fix the whole batch 20.1, 20.2, 20.3 was sent again.
func TestReplayC04ResumeOnLaggingNode(t *testing.T) {
	dir, err := os.MkdirTemp("", "replay-c04-")
	if err != nil {
		t.Fatal(err)
	}
	defer os.RemoveAll(dir)
	o, err := outputstream.NewOutputStream(dir)
	if err != nil {
		t.Fatal(err)
	}
	defer o.Close()
	batch := func(id uint64, n int) []outputstream.Message {
		var ms []outputstream.Message
		for k := 1; k <= n; k++ {
			ms = append(ms, outputstream.Message{Id: robust.Id{Id: id, Reply: uint64(k)}, Data: "x", InterestingFor: map[uint64]bool{1: true}})
		}
		return ms
	}
	if err := o.Add(batch(19, 1)); err != nil {
		t.Fatal(err)
	}
	api := NewHTTP(nil, nil, nil, o, nil, "", "", "", "", true, 3)
	ctx, cancel := context.WithCancel(context.Background())
	defer cancel()
	ch := make(chan []*robust.Message)
	go api.getMessages(ctx, robust.Id{Id: 20, Reply: 2}, ch)
	time.Sleep(400 * time.Millisecond) // the reader now waits behind batch 19
	if err := o.Add(batch(20, 3)); err != nil {
		t.Fatal(err)
	}
	var got []robust.Id
	timeout := time.After(2 * time.Second)
loop:
	for {
		select {
		case msgs := <-ch:
			for _, m := range msgs {
				got = append(got, m.Id)
			}
		case <-timeout:
			break loop
		}
	}
	if len(got) != 1 || got[0] != (robust.Id{Id: 20, Reply: 3}) {
		t.Fatalf("delivered %v after resuming at 20.2, want exactly [20.3]", got)
	}
}
