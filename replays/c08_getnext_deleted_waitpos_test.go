package outputstream

import (
	"context"
	"os"
	"testing"
	"time"

	"github.com/robustirc/robustirc/internal/robust"
)

// A reader waits behind the newest batch; that batch is deleted (compaction deletes oldest-first and
// may reach it on an idle network), then a new batch is added. The reader must return the new batch;
// before the fix it dereferenced a nil *messageBatch and took the process down.
func TestReplayC08GetNextWaitPositionDeleted(t *testing.T) {
	dir, err := os.MkdirTemp("", "replay-c08-")
	if err != nil {
		t.Fatal(err)
	}
	defer os.RemoveAll(dir)
	o, err := NewOutputStream(dir)
	if err != nil {
		t.Fatal(err)
	}
	defer o.Close()
	mk := func(id uint64) []Message {
		return []Message{{Id: robust.Id{Id: id, Reply: 1}, Data: "x", InterestingFor: map[uint64]bool{1: true}}}
	}
	if err := o.Add(mk(1)); err != nil {
		t.Fatal(err)
	}
	if err := o.Add(mk(2)); err != nil {
		t.Fatal(err)
	}
	got := make(chan []Message, 1)
	go func() { got <- o.GetNext(context.Background(), robust.Id{Id: 2}) }()
	time.Sleep(200 * time.Millisecond) // the reader is now blocked behind batch 2
	if err := o.Delete(robust.Id{Id: 2}); err != nil {
		t.Fatal(err)
	}
	if err := o.Add(mk(3)); err != nil {
		t.Fatal(err)
	}
	select {
	case msgs := <-got:
		if len(msgs) != 1 || msgs[0].Id.Id != 3 {
			t.Fatalf("GetNext returned %v, want batch 3", msgs)
		}
	case <-time.After(5 * time.Second):
		t.Fatalf("GetNext still blocked although batch 3 exists")
	}
}
