package raftstore

import (
	"math"
	"os"
	"testing"

	"github.com/hashicorp/raft"
)

// raft.LogStore: "DeleteRange deletes a range of log entries. The range is inclusive."
func TestReplayC09DeleteRangeMaxUint64(t *testing.T) {
	dir, err := os.MkdirTemp("", "replay-c09-")
	if err != nil {
		t.Fatal(err)
	}
	defer os.RemoveAll(dir)
	s, err := NewLevelDBStore(dir, false, true)
	if err != nil {
		t.Fatal(err)
	}
	defer s.Close()
	for i := uint64(1); i <= 5; i++ {
		if err := s.StoreLog(&raft.Log{Index: i, Term: 1, Type: raft.LogCommand, Data: []byte("x")}); err != nil {
			t.Fatal(err)
		}
	}
	if err := s.DeleteRange(3, math.MaxUint64); err != nil {
		t.Fatal(err)
	}
	var l raft.Log
	if err := s.GetLog(4, &l); err != raft.ErrLogNotFound {
		t.Fatalf("GetLog(4) after DeleteRange(3, MaxUint64) = %v, want raft.ErrLogNotFound (the range [3, MaxUint64] was silently treated as empty)", err)
	}
}
