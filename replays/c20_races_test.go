package ircserver

import (
	"sync"
	"testing"
	"time"

	"github.com/robustirc/robustirc/internal/robust"
)

// Run with the race detector: go test -race. Each test drives two operations the running system
// executes concurrently (HTTP handlers vs. the apply goroutine vs. Restore).

func replayC20Server(t *testing.T) *IRCServer {
	i := NewIRCServer("robustirc.net", time.Unix(0, 1481144012969203276))
	if err := i.CreateSession(robust.Id{Id: 100}, "authbytes", time.Unix(0, 100)); err != nil {
		t.Fatal(err)
	}
	return i
}

// Two POSTs for one session: request throttling updates the per-session counter.
func TestReplayC20ThrottleUntil(t *testing.T) {
	i := replayC20Server(t)
	var wg sync.WaitGroup
	for g := 0; g < 2; g++ {
		wg.Add(1)
		go func() {
			defer wg.Done()
			for k := 0; k < 200; k++ {
				i.ThrottleUntil(robust.Id{Id: 100})
			}
		}()
	}
	wg.Wait()
}

// The status page serializes the live server while the state machine applies entries.
func TestReplayC20MarshalVsApply(t *testing.T) {
	i := replayC20Server(t)
	var wg sync.WaitGroup
	wg.Add(2)
	go func() {
		defer wg.Done()
		for k := uint64(0); k < 200; k++ {
			i.SetLastProcessed(robust.Id{Id: 101 + k})
		}
	}()
	go func() {
		defer wg.Done()
		for k := 0; k < 200; k++ {
			if _, err := i.Marshal(0); err != nil {
				t.Error(err)
				return
			}
		}
	}()
	wg.Wait()
}

// Restore publishes the new server (ReplaceState) and then loads the snapshot into it, while HTTP
// handlers already look sessions up in it.
func TestReplayC20UnmarshalVsLookup(t *testing.T) {
	state, err := replayC20Server(t).Marshal(0)
	if err != nil {
		t.Fatal(err)
	}
	j := NewIRCServer("robustirc.net", time.Unix(0, 1481144012969203276))
	var wg sync.WaitGroup
	wg.Add(2)
	go func() {
		defer wg.Done()
		if _, err := j.Unmarshal(state); err != nil {
			t.Error(err)
		}
	}()
	go func() {
		defer wg.Done()
		for k := 0; k < 200; k++ {
			j.GetSession(robust.Id{Id: 100})
			j.NumSessions()
			j.SessionLimit()
		}
	}()
	wg.Wait()
}
