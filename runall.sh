#!/bin/bash
# runs every claimed quick check on the current tree (rewrites all evidence files)
export GOFLAGS=-mod=mod GOPROXY=off GOSUMDB=off GOTOOLCHAIN=local
cd /verif
for p in $(python3 -c "import json;print(' '.join(c['property_id'] for c in json.load(open('MANIFEST.json'))['checks']))"); do
  ./bin/govc check $p 2>&1 | grep "^property=\|^VIOLATION\|^ENGINE\|^KNOWN" | cut -c1-200
done
