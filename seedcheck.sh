#!/bin/bash
# usage: seedcheck.sh <worktree> <n> <id>   — confirm a seeded change in a scratch worktree and copy it to /verif/seeded/<id>/
# 1. patch applies; 2. with the patch the existing suite passes; 3. the demo fails with the patch; 4. the demo passes without it.
set -u
export GOFLAGS=-mod=mod GOPROXY=off GOSUMDB=off GOTOOLCHAIN=local
WT=$1; N=$2; ID=$3
S=$WT/seeds/$N
cd $WT || exit 2
git checkout -q -- . 2>/dev/null
find . -name contracts_verif.go -delete
pkgdir=$(python3 -c "import json;print(json.load(open('$S/meta.json'))['demo_pkg_dir'])")
RACE=$(python3 -c "import json;print('-race' if '-race' in json.load(open('$S/meta.json')).get('demo_run','') else '')")
demo=$WT/$pkgdir/zz_seed_demo_test.go
pkgs=$(go list ./... | grep -v /seeds | grep -v mod_test)
git apply $S/patch.diff || { echo "RESULT $ID patch-does-not-apply"; exit 1; }
go build ./... || { echo "RESULT $ID does-not-build"; git checkout -q -- .; exit 1; }
if go test -vet=off -count=1 $pkgs > /tmp/seed_suite_$ID.log 2>&1; then suite=pass; else suite=FAIL; fi
cp $S/demo_test.go $demo
if go test $RACE -vet=off -count=1 ./$pkgdir/ > /tmp/seed_demo_with_$ID.log 2>&1; then with=pass; else with=fail; fi
git apply -R $S/patch.diff
if go test $RACE -vet=off -count=1 ./$pkgdir/ > /tmp/seed_demo_without_$ID.log 2>&1; then without=pass; else without=fail; fi
rm -f $demo
git checkout -q -- . ; find . -name contracts_verif.go -delete
echo "RESULT $ID suite_with_patch=$suite demo_with_patch=$with demo_without_patch=$without"
if [ $suite = pass ] && [ $with = fail ] && [ $without = pass ]; then
  mkdir -p /verif/seeded/$ID && cp $S/patch.diff $S/demo_test.go $S/meta.json /verif/seeded/$ID/
  echo "KEPT $ID"
fi
