#!/bin/bash
# usage: seedrun.sh <seed-id> <property> [...]: apply a kept seed to /repo, run the quick checks, undo.
export GOFLAGS=-mod=mod GOPROXY=off GOSUMDB=off GOTOOLCHAIN=local
ID=$1; shift
cd /verif
git -C /repo diff --quiet || { echo "repo dirty"; exit 2; }
BAK=$(mktemp -d); cp -a /verif/evidence/. $BAK/   # evidence of the mutated tree must not replace the real one
git -C /repo apply /verif/seeded/$ID/patch.diff || { echo "$ID: patch does not apply to /repo"; rm -rf $BAK; exit 2; }
for P in "$@"; do
  out=$(./bin/govc check $P 2>&1)
  v=$(echo "$out" | grep -c "^VIOLATION")
  e=$(echo "$out" | grep -c "^ENGINE-ERROR")
  first=$(echo "$out" | grep "^FAILED-OBLIGATION" | head -3 | sed 's/FAILED-OBLIGATION //' | cut -c1-150 | tr '\n' ';')
  echo "SEED $ID check=$P violations=$v engine_errors=$e :: $first"
done
git -C /repo checkout -- .
cp -a $BAK/. /verif/evidence/; rm -rf $BAK
