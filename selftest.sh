#!/bin/bash
# Must-fail corpus: applies every kept seed to /repo in turn, runs the check(s) that are expected to
# catch it (table below, from DESIGN.md §A.6) and reports CAUGHT / MISSED. /repo must be clean; every
# seed is undone straight afterwards. Usage: selftest.sh [seed-id ...]
cd /verif
declare -A EXPECT=(
 [C01-1]=C01 [C01-2]=C01 [C01-3]=C01
 [C02-2]=C03
 [C03-1]=C03 [C03-2]=C03 [C03-3]=C03 [C03-b2]=C03 [C03-b3]=C03 [C03-b4]=C03
 [C04-1]=C04 [C04-2]=C04 [C04-3]=C04
 [C06-1]=C06 [C06-2]=C06 [C06-3]=C06
 [C07-1]=C07 [C07-2]=C07 [C07-3]=C07
 [C08-1]=C08 [C08-2]=C08 [C08-3]=C08
 [C09-1]=C09 [C09-2]=C09 [C09-3]=C09
 [C10-1]=C10 [C10-2]=C07 [C10-3]=C10
 [C11-b1]=C11 [C11-b2]=C11 [C11-b3]=C11
 [C12-1]=C12 [C12-2]=C12 [C12-3]=C12
 [C13-1]=C13 [C13-2]=C13 [C13-3]=C13
 [C14-1]=C14 [C14-2]=C14 [C14-3]=C03
 [C15-1]=C15 [C15-2]=C15 [C15-3]=C15
 [C16-b1]=C16 [C16-b2]=C16 [C16-b3]=C03
 [C17-1]=C17 [C17-2]=C17 [C17-3]=C17
 [C18-1]=C18 [C18-2]=C18 [C18-3]=C18
 [C19-1]=C19 [C19-2]=C19 [C19-3]=C19
 [C20-1]=C20 [C20-2]=C20 [C20-3]=C20
)
seeds="$@"
[ -z "$seeds" ] && seeds=$(ls seeded | sort)
caught=0; missed=0
for s in $seeds; do
  p=${EXPECT[$s]}
  if [ -z "$p" ]; then echo "SELFTEST $s: no claimed check is expected to catch it (see DESIGN.md A.6)"; continue; fi
  out=$(./seedrun.sh $s $p 2>&1 | tail -1)
  if echo "$out" | grep -q "violations=[1-9]"; then echo "SELFTEST $s: CAUGHT by $p"; caught=$((caught+1)); else echo "SELFTEST $s: MISSED by $p :: $out"; missed=$((missed+1)); fi
done
echo "SELFTEST caught=$caught missed=$missed"
[ $missed = 0 ]
